"""Deterministic step budget: turns "terminates after bounded work" into a safety property.

Steps are interpreter LINE events inside the dpapi_ng source directory (sys.monitoring,
Python 3.12).  The count is a pure function of the executed path, so it is independent of
machine load.  A second counter caps the number of KDF invocations per call by wrapping
cryptography's ``KBKDFHMAC.derive`` (a library boundary, not a dpapi_ng internal).
"""
from __future__ import annotations

import os
import sys
import typing as t

TOOL = 3
_mon = sys.monitoring


class BudgetExceeded(BaseException):
    """Raised inside the monitored code once the step limit is passed (BaseException so that
    ``except Exception`` in the code under test cannot swallow it)."""


class ShardAbort(BaseException):
    """A previous call in this shard blocked for ever (detected by the stall watchdog): whatever it waited for is still held, every
    further call would block as well, so the shard ends here (the violation is already recorded; the run is marked as capped)."""


class _State:
    poisoned = False
    prefix = ""
    count = 0
    limit = 0
    active = False
    installed = False
    kdf_calls = 0
    kdf_limit = 0
    kdf_installed = False


S = _State()


def _line_cb(code, line):  # noqa: ANN001
    if not code.co_filename.startswith(S.prefix):
        return _mon.DISABLE
    if not S.active:
        return None
    S.count += 1
    if S.count > S.limit:
        raise BudgetExceeded(f"more than {S.limit} dpapi_ng line events")
    return None


def install(prefix: t.Optional[str] = None) -> None:
    if S.installed:
        return
    if prefix is None:
        import dpapi_ng

        prefix = os.path.dirname(os.path.abspath(dpapi_ng.__file__)) + os.sep
    S.prefix = prefix
    _mon.use_tool_id(TOOL, "verif-budget")
    _mon.register_callback(TOOL, _mon.events.LINE, _line_cb)
    # enabled once and left on: toggling set_events re-instruments every code object on each call (measured: the
    # dominant cost); when no budgeted run is active the callback only costs a flag test on dpapi_ng lines.
    _mon.set_events(TOOL, _mon.events.LINE)
    S.installed = True


def install_kdf_counter() -> None:
    if S.kdf_installed:
        return
    from cryptography.hazmat.primitives.kdf import kbkdf

    orig = kbkdf.KBKDFHMAC.derive

    def derive(self, key_material):  # noqa: ANN001
        S.kdf_calls += 1
        if S.kdf_limit and S.kdf_calls > S.kdf_limit:
            raise BudgetExceeded(f"more than {S.kdf_limit} KDF invocations in one call")
        return orig(self, key_material)

    kbkdf.KBKDFHMAC.derive = derive  # type: ignore[method-assign]
    S.kdf_installed = True


STALL_TICK = 10.0  # seconds; two consecutive ticks without a single dpapi_ng line event = the call is blocked (e.g. on a lock)
_stall = {"last": -1, "ticks": 0, "installed": False}
# shard-level idle watchdog (armed by the runner for the whole shard): the harnesses never sleep, so a worker that burns no CPU time for
# three ticks is blocked in the code under test outside a budgeted call (e.g. a lock left held by an earlier, failed call)
_idle = {"on": False, "cpu": 0.0, "ticks": 0, "suspend": 0}


def _idle_check() -> None:
    import time

    if not _idle["on"] or _idle["suspend"]:
        return
    cpu = time.process_time()
    if cpu - _idle["cpu"] < 0.02:
        _idle["ticks"] += 1
        if _idle["ticks"] >= 3:
            S.poisoned = True
            _idle["ticks"] = 0
            raise ShardAbort(f"blocked: the process used no CPU time for {3 * STALL_TICK:.0f} s of wall-clock time (waiting on a lock / a read that never returns, outside a budgeted call)")
    else:
        _idle["ticks"] = 0
    _idle["cpu"] = cpu


def shard_watch(on: bool) -> None:
    import signal
    import threading
    import time

    if threading.current_thread() is not threading.main_thread():
        return
    if on:
        if not _stall["installed"]:
            signal.signal(signal.SIGALRM, _on_alarm)
            _stall["installed"] = True
        _idle.update(on=True, cpu=time.process_time(), ticks=0, suspend=0)
        signal.setitimer(signal.ITIMER_REAL, STALL_TICK, STALL_TICK)
    else:
        _idle["on"] = False
        signal.setitimer(signal.ITIMER_REAL, 0)


class idle_ok:
    """the harness itself waits for something that burns no CPU time in this process (a child interpreter)"""

    def __enter__(self):
        _idle["suspend"] += 1

    def __exit__(self, *a):  # noqa: ANN002
        _idle["suspend"] -= 1
        _idle["ticks"] = 0


def _on_alarm(signum, frame):  # noqa: ANN001
    if not S.active:
        _idle_check()
        return
    if S.count == _stall["last"]:
        _stall["ticks"] += 1
        if _stall["ticks"] >= 2:
            S.poisoned = True
            raise BudgetExceeded(f"blocked: no dpapi_ng line executed for {2 * STALL_TICK:.0f} s of wall-clock time (waiting on a lock / a read that never returns)")
    else:
        _stall["last"], _stall["ticks"] = S.count, 0


def _arm_stall_watchdog() -> bool:
    import signal
    import threading

    if threading.current_thread() is not threading.main_thread():
        return False
    if not _stall["installed"]:
        signal.signal(signal.SIGALRM, _on_alarm)
        _stall["installed"] = True
    _stall["last"], _stall["ticks"] = -1, 0
    signal.setitimer(signal.ITIMER_REAL, STALL_TICK, STALL_TICK)
    return True


def run(limit: int, fn: t.Callable[..., t.Any], *args: t.Any, kdf_limit: int = 0, **kw: t.Any) -> t.Tuple[t.Any, int, int]:
    """Run fn under the budget. Returns (result, steps, kdf_calls); BudgetExceeded propagates."""
    if S.poisoned:
        raise ShardAbort("an earlier call of this shard blocked for ever")
    install()
    if kdf_limit:
        install_kdf_counter()
    S.count = 0
    S.limit = limit
    S.kdf_calls = 0
    S.kdf_limit = kdf_limit
    S.active = True
    armed = _arm_stall_watchdog()
    try:
        res = fn(*args, **kw)
    finally:
        S.active = False
        S.kdf_limit = 0
        if armed and not _idle["on"]:
            import signal

            signal.setitimer(signal.ITIMER_REAL, 0)
    return res, S.count, S.kdf_calls


def outcome(limit: int, fn: t.Callable[..., t.Any], *args: t.Any, kdf_limit: int = 0, **kw: t.Any):
    """Like run() but never raises: returns ('ok', value, steps, kdf) | ('exc', exception, steps, kdf) |
    ('budget', exception, steps, kdf)."""
    try:
        res, steps, kdf = run(limit, fn, *args, kdf_limit=kdf_limit, **kw)
        return "ok", res, steps, kdf
    except BudgetExceeded as e:
        return "budget", e, S.count, S.kdf_calls
    except Exception as e:  # noqa: BLE001
        return "exc", e, S.count, S.kdf_calls


def last_steps() -> int:
    return S.count


# -- CPU-time backstop for very high-volume harnesses (no line monitoring) -----------------------
import contextlib
import signal


def _on_vtalrm(signum, frame):  # noqa: ANN001
    raise BudgetExceeded("CPU-time backstop expired (process CPU time, not wall clock)")


@contextlib.contextmanager
def cpu_guard(seconds: float = 5.0):
    """Raise BudgetExceeded in the main thread once `seconds` of *process CPU time* have been burnt."""
    old = signal.signal(signal.SIGVTALRM, _on_vtalrm)
    signal.setitimer(signal.ITIMER_VIRTUAL, seconds)
    try:
        yield
    finally:
        signal.setitimer(signal.ITIMER_VIRTUAL, 0)
        signal.signal(signal.SIGVTALRM, old)


def kdf_guarded(kdf_limit: int, fn: t.Callable[..., t.Any], *args: t.Any, **kw: t.Any):
    """Run fn with only the KDF-call cap active. Returns ('ok', v, kdf) | ('exc', e, kdf) | ('budget', e, kdf)."""
    install_kdf_counter()
    S.kdf_calls = 0
    S.kdf_limit = kdf_limit
    try:
        v = fn(*args, **kw)
        return "ok", v, S.kdf_calls
    except BudgetExceeded as e:
        return "budget", e, S.kdf_calls
    except Exception as e:  # noqa: BLE001
        return "exc", e, S.kdf_calls
    finally:
        S.kdf_limit = 0
