"""Two (or more) async library calls in flight at once on separate connections of the in-memory transport.

The calls run on the virtual loop; every reply the peer produces is held back (Hub(defer=True)) and the explorer decides, at each idle
point, which task is started or which task's next reply (or, with per_chunk, next TCP segment) is delivered.  Menu order: the task
chosen last first, so continuing one task is not a deviation and mc.explorer.explore(bound=k) enumerates every interleaving with at
most k switches.
"""
from __future__ import annotations

import asyncio
import typing as t
from asyncio import events

from env import seams, transport
from mc import explorer, vloop


def run(ch: explorer.Chooser, peer: t.Any, coro_factories: t.Sequence[t.Callable[[], t.Awaitable[t.Any]]], cms: t.Sequence[t.Any] = (), per_chunk: bool = False):
    """-> (status, results, order); status ok|deadlock; results[i] = ('ok', value) | ('exc', exception) | ('pending', None)"""
    import contextlib

    n = len(coro_factories)
    loop = vloop.VirtualLoop()
    started = [False] * n
    current = [-1]
    order: t.List[str] = []
    with contextlib.ExitStack() as stack:
        hub = stack.enter_context(transport.network(peer, defer=True))
        for cm in cms:
            stack.enter_context(cm)
        orig_open = hub.open_connection

        async def open_tagged(host=None, port=None, **k):
            r, wtr = await orig_open(host, port, **k)
            wtr.owner = asyncio.current_task().get_name()
            return r, wtr

        gates: t.List[t.Any] = []

        async def gated(i: int):
            await gates[i]
            return await coro_factories[i]()

        def on_idle() -> bool:
            menu: t.List[t.Tuple[int, str, t.Any]] = []
            for i in ([current[0]] if current[0] >= 0 else []) + [x for x in range(n) if x != current[0]]:
                if not started[i]:
                    menu.append((i, "start", None))
                else:
                    for j, (wtr, chunks) in enumerate(hub.pending):
                        if getattr(wtr, "owner", None) == f"T{i}" and chunks:
                            menu.append((i, "deliver", j))
                            break
            hub.pending[:] = [(w_, c_) for w_, c_ in hub.pending if c_]
            if not menu:
                return False
            k_ = ch.choose(len(menu), ",".join(f"T{m[0]}:{m[1]}" for m in menu)) if len(menu) > 1 else 0
            i, what, arg = menu[k_]
            current[0] = i
            order.append(f"{what[0]}{i}")
            if what == "start":
                started[i] = True
                gates[i].set_result(None)
            elif per_chunk:
                wtr, chunks = next((w_, c_) for w_, c_ in hub.pending if getattr(w_, "owner", None) == f"T{i}" and c_)
                transport.deliver(wtr.reader, [chunks.pop(0)])
            else:
                idx = next(j for j, (w_, c_) in enumerate(hub.pending) if getattr(w_, "owner", None) == f"T{i}" and c_)
                hub.release(idx)
            return True

        loop.on_idle = on_idle
        old = events._get_running_loop()
        events._set_running_loop(loop)
        try:
            with seams.patched(asyncio, "open_connection", open_tagged):
                gates.extend(loop.create_future() for _ in range(n))
                tasks = [loop.create_task(gated(i), name=f"T{i}") for i in range(n)]
                status = "ok"
                try:
                    while not all(tk.done() for tk in tasks):
                        if not loop._step():
                            status = "deadlock"
                            break
                except vloop.Deadlock:
                    status = "deadlock"
                res: t.List[t.Tuple[str, t.Any]] = []
                for tk in tasks:
                    if not tk.done():
                        res.append(("pending", None))
                        tk.cancel()
                    elif tk.cancelled():
                        res.append(("exc", asyncio.CancelledError()))
                    elif tk.exception() is not None:
                        res.append(("exc", tk.exception()))
                    else:
                        res.append(("ok", tk.result()))
        finally:
            events._set_running_loop(old)
            loop.shutdown()
    return status, res, order
