"""Common runner for all checks: sharding, merging, evidence, known findings, replay.

A check module (checks/cNN.py) exposes

    ID      = "C07"
    LEVEL   = "exploration" | "model_checking"
    RULE    = "how cases are enumerated / what makes one non-trivial"
    ASSUME  = [...]                                   # assumptions / trusted base
    def shards(tier, seed) -> list[jsonable]          # deterministic partition of the space
    def run_shard(shard, tier, seed, acc)             # explores one part, reports into acc
    def replay(case, seed, acc)                       # re-runs exactly one recorded case
    def finish(tier, seed, merged) -> None            # optional: vacuity checks on merged stats

Everything a shard reports goes through ``Acc`` so that counts are measured, never
constants.  The parent process alone writes evidence and replay files.
"""
from __future__ import annotations

import argparse
import collections
import hashlib
import importlib
import json
import multiprocessing
import os
import sys
import time
import traceback
import typing as t

VERIF = os.path.dirname(os.path.dirname(os.path.abspath(__file__)))
TARGET = os.environ.get("VERIF_TARGET", "/repo/src")
MAX_VIOL_PER_KEY = 3
MAX_SAMPLES = 12


# -- process-level settings an application may have changed before it calls the library (part of the environment) ---------------
#   * warnings are ALWAYS errors (python -W error / PYTHONWARNINGS=error / pytest filterwarnings=error):
#     under the default filters a warning has no effect, so running with the strict filter loses nothing
#   * DEBUG logging of the dpapi_ng loggers is switched on for every second shard (a function of the shard, recorded in each violation
#     and re-applied by --replay), so both the logging and the non-logging paths of the library are explored
AMBIENT: t.Dict[str, t.Any] = {"debuglog": False}


class _SinkHandler:
    level = 0

    def handle(self, record):  # noqa: ANN001
        try:
            record.getMessage()  # format the message the way a real handler would
        except Exception:  # noqa: BLE001
            raise
        return True


def apply_ambient(debuglog: bool) -> None:
    import logging
    import warnings

    warnings.simplefilter("error")  # every warning, whichever module it is attributed to (stacklevel tricks included)
    warnings.simplefilter("ignore", ResourceWarning)  # (unclosed in-memory transports of the harness itself)
    AMBIENT["debuglog"] = bool(debuglog)
    lg = logging.getLogger("dpapi_ng")
    if not any(isinstance(h, logging.Handler) and getattr(h, "_verif", False) for h in lg.handlers):
        h = logging.Handler()
        h._verif = True  # type: ignore[attr-defined]
        h.emit = lambda record: record.getMessage()  # type: ignore[method-assign]
        lg.addHandler(h)
        lg.propagate = False
    lg.setLevel(logging.DEBUG if debuglog else logging.WARNING)


def shard_ambient(shard: t.Any) -> bool:
    return int(hashlib.sha256(repr(shard).encode()).hexdigest(), 16) % 2 == 1


class HarnessError(Exception):
    """The machinery itself is broken (calibration failure, replay divergence...)."""


class Vacuous(HarnessError):
    """The exploration did not reach what it claims to reach."""


def jsonable(x: t.Any) -> t.Any:
    if isinstance(x, (bytes, bytearray, memoryview)):
        b = bytes(x)
        if len(b) > 96:
            return {"hex_head": b[:48].hex(), "len": len(b), "sha256": hashlib.sha256(b).hexdigest()}
        return {"hex": b.hex()}
    if isinstance(x, dict):
        return {str(k): jsonable(v) for k, v in x.items()}
    if isinstance(x, (list, tuple, set, frozenset)):
        return [jsonable(v) for v in x]
    if isinstance(x, (int, str, bool, float)) or x is None:
        return x
    return repr(x)


def digest(x: t.Any) -> int:
    return int.from_bytes(hashlib.blake2b(repr(x).encode(), digest_size=8).digest(), "big")


class Acc:
    """Accumulator of one shard (or of the merged run)."""

    def __init__(self) -> None:
        self.evaluations = 0
        self.nontrivial: t.Set[int] = set()
        self.nontrivial_counted = 0  # distinct-by-construction counts (disjoint enumerations)
        self.outcomes: t.Counter[str] = collections.Counter()
        self.violations: t.Dict[str, t.List[dict]] = {}
        self.violation_count = 0
        self.samples: t.List[t.Any] = []
        self.smax: t.Dict[str, float] = {}
        self.ssum: t.Counter[str] = collections.Counter()
        self.states = 0
        self.transitions = 0
        self.notes: t.List[str] = []
        self.caps: t.List[str] = []
        self.sets: t.Dict[str, t.Set[int]] = {}

    # -- reporting -----------------------------------------------------------------
    def ev(self, n: int = 1) -> None:
        self.evaluations += n

    def nt(self, key: t.Any) -> None:
        """a distinct non-trivial case, identified by key"""
        self.nontrivial.add(key if isinstance(key, int) else digest(key))

    def nt_counted(self, n: int = 1) -> None:
        """n non-trivial cases that are distinct by construction of the enumeration"""
        self.nontrivial_counted += n

    def set_add(self, name: str, key: t.Any) -> None:
        """named set of digests, merged by union across shards (for distinctness / coverage oracles)"""
        self.sets.setdefault(name, set()).add(key if isinstance(key, int) else digest(key))

    def outcome(self, name: str, n: int = 1) -> None:
        self.outcomes[name] += n

    def sample(self, case: t.Any) -> None:
        if len(self.samples) < MAX_SAMPLES:
            self.samples.append(jsonable(case))

    def stat_max(self, name: str, v: float) -> None:
        if v > self.smax.get(name, float("-inf")):
            self.smax[name] = v

    def stat_add(self, name: str, n: int = 1) -> None:
        self.ssum[name] += n

    def cap(self, text: str) -> None:
        if text not in self.caps:
            self.caps.append(text)

    def violate(self, key: str, case: t.Any, detail: t.Any, size: t.Optional[int] = None) -> None:
        """key groups violations of one kind; the smallest cases per key are kept."""
        self.violation_count += 1
        lst = self.violations.setdefault(key, [])
        entry = {"key": key, "case": case, "detail": jsonable(detail), "size": size if size is not None else len(repr(case)), "ambient": dict(AMBIENT)}
        lst.append(entry)
        lst.sort(key=lambda e: e["size"])
        del lst[MAX_VIOL_PER_KEY:]

    def too_many(self, limit: int = 300) -> bool:
        """lets a harness stop a shard early once it is clearly red (the run is then marked as capped)"""
        if self.violation_count > limit:
            self.cap(f"a shard stopped after more than {limit} violations")
            return True
        return False

    # -- merging -------------------------------------------------------------------
    def merge(self, o: "Acc") -> None:
        self.evaluations += o.evaluations
        self.nontrivial |= o.nontrivial
        self.nontrivial_counted += o.nontrivial_counted
        self.outcomes.update(o.outcomes)
        for k, lst in o.violations.items():
            mine = self.violations.setdefault(k, [])
            mine.extend(lst)
            mine.sort(key=lambda e: e["size"])
            del mine[MAX_VIOL_PER_KEY:]
        self.violation_count += o.violation_count
        for s in o.samples:
            if len(self.samples) < MAX_SAMPLES:
                self.samples.append(s)
        for k, v in o.smax.items():
            self.stat_max(k, v)
        self.ssum.update(o.ssum)
        self.states += o.states
        self.transitions += o.transitions
        for n in o.notes:
            if n not in self.notes:
                self.notes.append(n)
        for c in o.caps:
            self.cap(c)
        for k, v in o.sets.items():
            self.sets.setdefault(k, set()).update(v)


def setup_path() -> None:
    if TARGET not in sys.path:
        sys.path.insert(0, TARGET)
    if VERIF not in sys.path:
        sys.path.insert(0, VERIF)


def load_check(cid: str):
    setup_path()
    return importlib.import_module(f"checks.{cid.lower()}")


_worker_mod = None


def _worker_init(cid: str) -> None:
    global _worker_mod
    _worker_mod = load_check(cid)
    init = getattr(_worker_mod, "worker_init", None)
    if init:
        init()


def _worker_run(args: t.Tuple[t.Any, str, int]) -> t.Tuple[t.Optional[Acc], t.Optional[str]]:
    shard, tier, seed = args
    acc = Acc()
    from mc import budget as _budget

    _budget.S.poisoned = False
    apply_ambient(shard_ambient(shard))
    try:
        _budget.shard_watch(True)
        try:
            _worker_mod.run_shard(shard, tier, seed, acc)  # type: ignore[union-attr]
        finally:
            _budget.shard_watch(False)
        return acc, None
    except _budget.ShardAbort as e:
        acc.cap(f"shard {shard!r} stopped: {e}")
        if not acc.violation_count:
            acc.violate("harness.blocked-call", ["shard", shard, tier], {"detail": str(e)}, size=10**6)
        return acc, None
    except (HarnessError, KeyboardInterrupt, SystemExit):
        return None, f"shard {shard!r}:\n{traceback.format_exc()}"
    except BaseException as e:  # noqa: BLE001
        # An exception escaping from a harness body means the code under test behaved in a way the harness did not
        # anticipate (it never happens on a tree where the property holds): report it as a violation, replayable by
        # re-running the shard, rather than as silent breakage.
        acc.violate(f"harness.crash.{type(e).__name__}", ["shard", shard, tier], {"traceback": traceback.format_exc()[-1500:]}, size=10**6)
        acc.ev()
        return acc, None


def load_known() -> t.List[dict]:
    p = os.path.join(VERIF, "known_findings.json")
    if not os.path.exists(p):
        return []
    with open(p) as f:
        return json.load(f).get("findings", [])


def match_known(cid: str, key: str, entry: dict, known: t.List[dict]) -> t.Optional[dict]:
    for k in known:
        if k.get("status") != "open" or k.get("property") != cid:
            continue
        if k.get("key") != key:
            continue
        return k
    return None


def write_evidence(cid: str, level: str, tier: str, seed: int, merged: Acc, mod, wall: float, n_viol: int, extra: dict) -> str:
    evdir = os.environ.get("VERIF_EVIDENCE_DIR") or os.path.join(VERIF, "evidence")
    os.makedirs(evdir, exist_ok=True)
    nontrivial = len(merged.nontrivial) + merged.nontrivial_counted
    cov: t.Dict[str, t.Any] = {
        "evaluations": merged.evaluations,
        "distinct_nontrivial": nontrivial,
        "rule": getattr(mod, "RULE", ""),
        "samples": merged.samples,
        "exhaustive": not merged.caps,
        "distinct_outcomes": len(merged.outcomes),
        "outcomes": dict(sorted(merged.outcomes.items())),
        "stats_max": merged.smax,
        "stats_sum": dict(sorted(merged.ssum.items())),
        "caps_hit": merged.caps,
        "notes": merged.notes,
        "bound": (getattr(mod, "BOUND", {}) or {}).get(tier, ""),
        "set_sizes": {k: len(v) for k, v in sorted(merged.sets.items())},
    }
    if level == "model_checking":
        cov["states"] = merged.states
        cov["transitions"] = merged.transitions
        cov["traces_validated_against_impl"] = merged.evaluations
    cov.update(extra)
    ev = {
        "property_id": cid,
        "tier": tier,
        "seed": seed,
        "level": level,
        "coverage": cov,
        "assumptions": list(getattr(mod, "ASSUME", [])),
        "wall_s": round(wall, 3),
        "violations": n_viol,
    }
    # minimal self-check of what EVIDENCE.schema.json requires
    assert isinstance(cov["evaluations"], int) and cov["evaluations"] >= 1, "no evaluations"
    assert cov["distinct_nontrivial"] >= 2, "distinct_nontrivial < 2"
    assert cov["samples"], "no samples"
    if level == "model_checking":
        assert cov["states"] >= 1 and cov["transitions"] >= 1, "model_checking needs states/transitions"
    path = os.path.join(evdir, f"{cid}.json")
    tmp = path + ".tmp"
    with open(tmp, "w") as f:
        json.dump(ev, f, indent=1, sort_keys=True)
        f.write("\n")
    os.replace(tmp, path)
    return path


def write_replay(cid: str, tier: str, seed: int, entry: dict) -> str:
    rdir = os.path.join(os.environ["VERIF_EVIDENCE_DIR"], "replays") if os.environ.get("VERIF_EVIDENCE_DIR") else os.path.join(VERIF, "replays")
    os.makedirs(rdir, exist_ok=True)
    body = {"property": cid, "tier": tier, "seed": seed, **entry}
    dg = hashlib.sha256(json.dumps(jsonable(body), sort_keys=True).encode()).hexdigest()[:12]
    path = os.path.join(rdir, f"{cid}-{dg}.json")
    with open(path, "w") as f:
        json.dump(body, f, indent=1, default=jsonable)
        f.write("\n")
    return path


def main(argv: t.Optional[t.List[str]] = None) -> int:
    ap = argparse.ArgumentParser(prog="check")
    ap.add_argument("cid")
    ap.add_argument("--tier", default=os.environ.get("VERIF_TIER") or "quick", choices=["quick", "thorough"])
    ap.add_argument("--replay")
    ap.add_argument("--jobs", type=int, default=int(os.environ.get("VERIF_JOBS", "0")) or (os.cpu_count() or 4))
    ap.add_argument("--only", help="substring filter on shard repr (debugging; marks run non-exhaustive)")
    args = ap.parse_args(argv)
    cid = args.cid.upper()
    seed = int(os.environ.get("VERIF_SEED", "0") or 0)
    setup_path()
    t0 = time.time()
    # one scratch directory per run, made by the parent and removed when it exits: worker processes end without running their own
    # atexit handlers, so whatever they need on disk (the NTLM user file) lives below it
    import atexit
    import shutil
    import tempfile

    run_tmp = tempfile.mkdtemp(prefix="verif-run-")
    os.environ["VERIF_RUN_TMP"] = run_tmp
    atexit.register(shutil.rmtree, run_tmp, True)

    if cid == "CALIBRATE":
        from ref import calibrate

        return calibrate.main()

    mod = load_check(cid)
    level = mod.LEVEL

    if args.replay:
        with open(args.replay) as f:
            rec = json.load(f)
        acc = Acc()
        init = getattr(mod, "worker_init", None)
        if init:
            init()
        apply_ambient(bool((rec.get("ambient") or {}).get("debuglog")))
        if rec["case"] and rec["case"][0] == "shard":
            apply_ambient(shard_ambient(rec["case"][1]))
            try:
                mod.run_shard(rec["case"][1], rec["case"][2], rec.get("seed", seed), acc)
            except BaseException as e:  # noqa: BLE001
                acc.violate(f"harness.crash.{type(e).__name__}", rec["case"], {"traceback": traceback.format_exc()[-1500:]})
        else:
            mod.replay(rec["case"], rec.get("seed", seed), acc)
        if acc.violation_count:
            for k, lst in acc.violations.items():
                for e in lst:
                    print(f"replay: still violates [{k}] {json.dumps(e['detail'])[:600]}")
            print(f"VIOLATION property={cid} replay={args.replay}")
            return 1
        print(f"replay: {cid} no violation for the recorded case")
        return 0

    cal = getattr(mod, "calibrate", None)
    if cal:
        cal()  # raises HarnessError when the reference model is off

    shards = list(mod.shards(args.tier, seed))
    capped = False
    if args.only:
        shards = [s for s in shards if args.only in repr(s)]
        capped = True
    merged = Acc()
    errors: t.List[str] = []
    jobs = max(1, min(args.jobs, len(shards)))
    work = [(s, args.tier, seed) for s in shards]
    if jobs == 1:
        _worker_init(cid)
        results = map(_worker_run, work)
        for acc, err in results:
            if err:
                errors.append(err)
            else:
                merged.merge(acc)
    else:
        ctx = multiprocessing.get_context("fork")
        with ctx.Pool(jobs, initializer=_worker_init, initargs=(cid,)) as pool:
            for acc, err in pool.imap_unordered(_worker_run, work, chunksize=1):
                if err:
                    errors.append(err)
                else:
                    merged.merge(acc)
    if errors:
        print(f"HARNESS-ERROR {cid}: {len(errors)} shard(s) failed", file=sys.stderr)
        for e in errors[:3]:
            print(e, file=sys.stderr)
        return 2
    if capped:
        merged.cap(f"--only {args.only}")

    fin = getattr(mod, "finish", None)
    if fin and not merged.violation_count:
        # vacuity assertions describe an exploration of a tree where the property holds; once a violation is on record the counters they
        # look at are no longer meaningful (a broken tree can also starve them) and the violation is what has to be reported
        fin(args.tier, seed, merged)  # may raise Vacuous

    known = load_known()
    new: t.List[dict] = []
    known_hit: t.Dict[str, t.Tuple[dict, int]] = {}
    for key in sorted(merged.violations):
        for e in merged.violations[key]:
            k = match_known(cid, key, e, known)
            if k:
                known_hit[k["key"]] = (k, known_hit.get(k["key"], (k, 0))[1] + 1)
            else:
                new.append(e)
    for k, n in known_hit.values():
        print(f"KNOWN-FINDING: property={cid} {k.get('what', k['key'])}")
    wall = time.time() - t0
    extra = {"shards": len(shards), "violation_keys": sorted(merged.violations), "violations_total": merged.violation_count}
    path = write_evidence(cid, level, args.tier, seed, merged, mod, wall, len(new), extra)
    nt = len(merged.nontrivial) + merged.nontrivial_counted
    print(
        f"{cid} tier={args.tier} seed={seed} evaluations={merged.evaluations} nontrivial={nt} "
        f"outcomes={len(merged.outcomes)} states={merged.states} transitions={merged.transitions} "
        f"violations={merged.violation_count} wall={wall:.1f}s evidence={path}"
    )
    if new:
        new.sort(key=lambda e: e["size"])
        seen_keys = set()
        first_path = None
        for e in new:
            if e["key"] in seen_keys:
                continue
            seen_keys.add(e["key"])
            p = write_replay(cid, args.tier, seed, e)
            first_path = first_path or p
            print(f"violation [{e['key']}] case={json.dumps(jsonable(e['case']))[:300]} detail={json.dumps(e['detail'])[:400]} replay={p}")
        print(f"VIOLATION property={cid} replay={first_path}")
        return 1
    return 0


if __name__ == "__main__":
    sys.exit(main())
