"""Stateless choice-point DFS with a deviation bound (CHESS-style iterative context bounding, where the
cost is a departure from the default environment answer, index 0)."""
from __future__ import annotations

import typing as t


class ReplayDivergence(Exception):
    """Replaying a recorded prefix met a different choice point: the harness is nondeterministic."""


class Chooser:
    def __init__(self, prefix: t.Sequence[int], expect: t.Sequence[t.Tuple[int, str]] = ()) -> None:
        self.prefix = list(prefix)
        self.expect = list(expect)
        self.trace: t.List[t.Tuple[int, int, str]] = []  # (n options, chosen, label)

    def choose(self, n: int, label: str = "") -> int:
        i = len(self.trace)
        if i < len(self.prefix):
            c = self.prefix[i]
            if i < len(self.expect) and self.expect[i] != (n, label):
                raise ReplayDivergence(f"choice point {i}: recorded {self.expect[i]}, now {(n, label)}")
            if c >= n:
                raise ReplayDivergence(f"choice point {i}: recorded choice {c} but only {n} options")
        else:
            c = 0
        self.trace.append((n, c, label))
        return c

    @property
    def choices(self) -> t.List[int]:
        return [c for _, c, _ in self.trace]

    @property
    def deviations(self) -> int:
        return sum(1 for _, c, _ in self.trace if c)


def explore(body: t.Callable[[Chooser], t.Any], bound: int, on_exec: t.Callable[[Chooser, t.Any], None], max_execs: int = 10**9, root_filter: t.Optional[t.Callable[[int], bool]] = None) -> t.Dict[str, int]:
    """Run body for every choice sequence with at most `bound` non-default choices. Returns counters.
    root_filter(i): restrict the FIRST deviation to choice points i it accepts (to shard one exploration over several workers)."""
    stats = {"executions": 0, "choice_points": 0, "max_depth": 0, "capped": 0}
    stack: t.List[t.Tuple[t.List[int], t.List[t.Tuple[int, str]]]] = [([], [])]
    while stack:
        prefix, expect = stack.pop()
        ch = Chooser(prefix, expect)
        res = body(ch)
        on_exec(ch, res)
        stats["executions"] += 1
        stats["choice_points"] += len(ch.trace)
        stats["max_depth"] = max(stats["max_depth"], len(ch.trace))
        if stats["executions"] >= max_execs:
            stats["capped"] = 1
            break
        dev = sum(1 for c in prefix if c)
        if dev + 1 > bound:
            continue
        sig = [(n, lab) for n, _, lab in ch.trace]
        # alternatives at every choice point past the prefix (pushed in reverse so that shallow, small ones run first)
        for i in range(len(ch.trace) - 1, len(prefix) - 1, -1):
            if root_filter is not None and not prefix and not root_filter(i):
                continue
            n, c, lab = ch.trace[i]
            for alt in range(n - 1, 0, -1):
                stack.append((ch.choices[:i] + [alt], sig[: i + 1]))
    return stats
