"""Controlled scheduler for real OS threads running the sync API (stateless exploration with a preemption bound).

Every managed thread owns a semaphore; exactly one holds the baton.  Scheduling points are interpreter LINE events inside the
dpapi_ng source directory (sys.monitoring, Python 3.12, own tool id), i.e. a thread can be preempted before any source line of
the library, and at thread start / end.  At a point the Chooser decides who runs next; the menu is in canonical order
(running thread first, then ascending ids), so choice 0 = "continue" and every non-zero choice at a line point is one preemption:
mc.explorer.explore(bound=k) enumerates every schedule with at most k preemptions.

What this does not model: switches in the middle of a source line, and true parallelism inside C extensions that release the GIL
(the library holds no locks and its C calls do not touch shared Python objects).
"""
from __future__ import annotations

import os
import sys
import threading
import typing as t

from mc import explorer

TOOL = 4
_mon = sys.monitoring


class SchedulerError(Exception):
    pass


class _G:
    installed = False
    prefix = ""
    sched: t.Optional["Sched"] = None


def _line_cb(code, line):  # noqa: ANN001
    if not code.co_filename.startswith(_G.prefix):
        return _mon.DISABLE
    s = _G.sched
    if s is not None:
        s.point(code, line)
    return None


def install() -> None:
    if _G.installed:
        return
    import dpapi_ng

    _G.prefix = os.path.dirname(os.path.abspath(dpapi_ng.__file__)) + os.sep
    _mon.use_tool_id(TOOL, "verif-threads")
    _mon.register_callback(TOOL, _mon.events.LINE, _line_cb)
    _mon.set_events(TOOL, _mon.events.LINE)
    _G.installed = True


class Sched:
    def __init__(self, ch: explorer.Chooser, coarse: bool = False, only_files: t.Optional[t.Collection[str]] = None) -> None:
        self.ch = ch
        self.coarse = coarse  # only the first line of each function invocation is a point (function-call granularity)
        self.only_files = frozenset(only_files) if only_files else None  # scheduling points only in these source files (base names)
        self.by_ident: t.Dict[int, int] = {}
        self.sems: t.List[threading.Semaphore] = []
        self.done: t.List[bool] = []
        self.current = -1
        self.error: t.Optional[BaseException] = None
        self.points = 0
        self.switches: t.List[t.Tuple[int, str]] = []

    # called in the running managed thread, from the LINE callback
    def point(self, code, line) -> None:  # noqa: ANN001
        i = self.by_ident.get(threading.get_ident())
        if i is None or self.error is not None:
            return
        if i != self.current:
            self.error = SchedulerError(f"thread {i} runs without the baton (holder {self.current})")
            return
        if self.only_files is not None and os.path.basename(code.co_filename) not in self.only_files:
            return
        if self.coarse and line != code.co_firstlineno + 0 and line not in _first_lines(code):
            return
        others = [j for j in range(len(self.done)) if j != i and not self.done[j]]
        if not others:
            return
        self.points += 1
        label = _label(i, code, line)
        try:
            k = self.ch.choose(1 + len(others), label)
        except explorer.ReplayDivergence as e:
            self.error = e
            return
        if k:
            nxt = others[k - 1]
            self.switches.append((i, label))
            self.current = nxt
            self.sems[nxt].release()
            self.sems[i].acquire()

    def run(self, bodies: t.Sequence[t.Callable[[], t.Any]], timeout: float = 60.0) -> t.List[t.Tuple[str, t.Any]]:
        install()
        n = len(bodies)
        self.sems = [threading.Semaphore(0) for _ in range(n)]
        self.done = [False] * n
        results: t.List[t.Tuple[str, t.Any]] = [("pending", None)] * n
        registered = threading.Barrier(n + 1)

        def wrap(i: int) -> None:
            self.by_ident[threading.get_ident()] = i
            registered.wait()
            self.sems[i].acquire()
            try:
                results[i] = ("ok", bodies[i]())
            except BaseException as e:  # noqa: BLE001
                results[i] = ("exc", e)
            finally:
                self.done[i] = True
                rest = [j for j in range(n) if not self.done[j]]
                if rest:
                    k = 0
                    if len(rest) > 1 and self.error is None:
                        try:
                            k = self.ch.choose(len(rest), f"T{i}:end")
                        except explorer.ReplayDivergence as e:
                            self.error = e
                    self.current = rest[k]
                    self.sems[rest[k]].release()

        ths = [threading.Thread(target=wrap, args=(i,), daemon=True) for i in range(n)]
        for th in ths:
            th.start()
        registered.wait()
        first = self.ch.choose(n, "start") if n > 1 else 0
        _G.sched = self
        try:
            self.current = first
            self.sems[first].release()
            for th in ths:
                th.join(timeout)
                if th.is_alive():
                    raise SchedulerError("managed thread did not finish (deadlock under the controlled scheduler)")
        finally:
            _G.sched = None
        if self.error is not None:
            raise self.error
        return results


_LBL: t.Dict[t.Tuple[int, t.Any, int], str] = {}


def _label(i: int, code, line: int) -> str:  # noqa: ANN001
    k = (i, code, line)
    r = _LBL.get(k)
    if r is None:
        r = _LBL[k] = f"T{i}@{os.path.basename(code.co_filename)}:{line}"
    return r


_FL: t.Dict[t.Any, t.FrozenSet[int]] = {}


def _first_lines(code) -> t.FrozenSet[int]:  # noqa: ANN001
    """first executable line of a code object (the line after 'def' is co_firstlineno for functions: use the smallest line in co_lines above it)"""
    r = _FL.get(code)
    if r is None:
        lines = sorted({ln for _, _, ln in code.co_lines() if ln is not None and ln > code.co_firstlineno})
        r = _FL[code] = frozenset(lines[:1])
    return r


def explore(bodies_factory: t.Callable[[], t.Sequence[t.Callable[[], t.Any]]], bound: int, on_exec: t.Callable[[explorer.Chooser, "Sched", t.Any, t.Any], None], coarse: bool = False, root_filter: t.Optional[t.Callable[[int], bool]] = None, max_execs: int = 10**9, only_files: t.Optional[t.Collection[str]] = None) -> t.Dict[str, int]:
    """bodies_factory() -> (bodies, context) is called afresh for every execution (fresh caches / entropy logs)."""

    def body(ch: explorer.Chooser):
        bodies, ctx = bodies_factory()
        s = Sched(ch, coarse, only_files)
        res = s.run(bodies)
        return s, res, ctx

    def on(ch: explorer.Chooser, r) -> None:
        s, res, ctx = r
        on_exec(ch, s, res, ctx)

    return explorer.explore(body, bound, on, max_execs=max_execs, root_filter=root_filter)
