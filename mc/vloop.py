"""Virtual asyncio event loop: no selector, no threads, virtual time, explorer-owned scheduling.

* ready handles run in FIFO order (as in the stock loop);
* timers fire only when nothing else is runnable (virtual time jumps to the earliest timer);
* run_in_executor executes inline and returns a completed future (pyspnego then runs on the loop thread);
* when neither ready handles nor timers exist, ``on_idle`` (the environment) is asked to make progress,
  e.g. deliver the reply of a pending connection chosen by the explorer; if it cannot, the run is a deadlock.
"""
from __future__ import annotations

import asyncio
import heapq
import typing as t
from asyncio import events


class Deadlock(BaseException):
    pass


class LoopBudget(BaseException):
    pass


class VirtualLoop(asyncio.BaseEventLoop):
    def __init__(self) -> None:
        super().__init__()
        self._vtime = 0.0
        self.on_idle: t.Optional[t.Callable[[], bool]] = None
        self.handles_run = 0
        self.max_handles = 200000
        self.exceptions: t.List[dict] = []
        self.set_exception_handler(lambda loop, ctx: self.exceptions.append(ctx))

    # -- BaseEventLoop plumbing -------------------------------------------------------------
    def time(self) -> float:
        return self._vtime

    def _process_events(self, event_list: t.Any) -> None:  # pragma: no cover
        pass

    def _write_to_self(self) -> None:
        pass

    def run_in_executor(self, executor: t.Any, func: t.Callable[..., t.Any], *args: t.Any) -> "asyncio.Future[t.Any]":
        # the function runs inline, but an executor object that was handed in keeps its contract: a pool that has been shut down refuses work
        if executor is not None and getattr(executor, "_shutdown", False):
            raise RuntimeError("cannot schedule new futures after shutdown")
        fut = self.create_future()
        try:
            fut.set_result(func(*args))
        except BaseException as e:  # noqa: BLE001
            if isinstance(e, (KeyboardInterrupt, SystemExit, Deadlock, LoopBudget)) or type(e).__name__ in ("BudgetExceeded",):
                raise
            fut.set_exception(e)
        return fut

    # -- driving ----------------------------------------------------------------------------
    def _step(self) -> bool:
        """run one batch of ready handles / one timer / one idle action. False if nothing could be done."""
        if self._ready:
            n = len(self._ready)
            for _ in range(n):
                h = self._ready.popleft()
                if h._cancelled:
                    continue
                self.handles_run += 1
                if self.handles_run > self.max_handles:
                    raise LoopBudget(f"more than {self.max_handles} loop callbacks")
                h._run()
            return True
        while self._scheduled and self._scheduled[0]._cancelled:
            heapq.heappop(self._scheduled)._scheduled = False
        if self.on_idle is not None and self.on_idle():
            return True
        if self._scheduled:
            h = heapq.heappop(self._scheduled)
            h._scheduled = False
            self._vtime = max(self._vtime, h._when)
            self._ready.append(h)
            return True
        return False

    def run(self, coro: t.Coroutine[t.Any, t.Any, t.Any]) -> t.Any:
        """Run one coroutine to completion on this loop (the loop is 'running' for asyncio's purposes)."""
        old = events._get_running_loop()
        events._set_running_loop(self)
        try:
            task = self.create_task(coro)
            while not task.done():
                if not self._step():
                    task.cancel()
                    # let the cancellation unwind (closes writers etc.)
                    for _ in range(100):
                        if task.done() or not self._step():
                            break
                    raise Deadlock("no runnable task, no timer, environment has nothing to deliver")
            return task.result()
        finally:
            events._set_running_loop(old)

    def run_many(self, coros: t.Sequence[t.Coroutine[t.Any, t.Any, t.Any]]) -> t.List[t.Tuple[str, t.Any]]:
        """Run several coroutines concurrently; returns [('ok', value) | ('exc', exception)] in input order."""
        old = events._get_running_loop()
        events._set_running_loop(self)
        try:
            tasks = [self.create_task(c) for c in coros]
            while not all(tk.done() for tk in tasks):
                if not self._step():
                    for tk in tasks:
                        tk.cancel()
                    for _ in range(100):
                        if all(tk.done() for tk in tasks) or not self._step():
                            break
                    raise Deadlock("no runnable task, no timer, environment has nothing to deliver")
            out: t.List[t.Tuple[str, t.Any]] = []
            for tk in tasks:
                if tk.cancelled():
                    out.append(("exc", asyncio.CancelledError()))
                elif tk.exception() is not None:
                    out.append(("exc", tk.exception()))
                else:
                    out.append(("ok", tk.result()))
            return out
        finally:
            events._set_running_loop(old)

    def shutdown(self) -> None:
        if not self.is_closed():
            self._ready.clear()
            self._scheduled.clear()
            self.close()


def run(coro: t.Coroutine[t.Any, t.Any, t.Any], on_idle: t.Optional[t.Callable[[], bool]] = None) -> t.Any:
    loop = VirtualLoop()
    loop.on_idle = on_idle
    try:
        return loop.run(coro)
    finally:
        loop.shutdown()
