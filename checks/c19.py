"""C19 — every encryption uses fresh CEK, nonce and key-identifier randomness."""
from __future__ import annotations

import itertools
import typing as t

from env import refdc, secctx, seams, transport
from mc import vloop
from ref import cms, gkdi

ID = "C19"
LEVEL = "model_checking"
RULE = (
    "every history of length <=4 (quick) / <=5 (thorough) over 7 operations {protect(P1,SID1), protect(P2,SID1), protect(P1,SID2), unprotect(latest output), protect in public-key mode via the "
    "reference DC with a DH root key, same with ECDH_P256, same with a DH root key whose private key length (509 bits) is not a multiple of 8, the application reseeding the interpreter-wide `random` module to a constant, protect naming a root key whose seed keys come from the DC and are then cached}; all tuples of 2..3 such protects IN FLIGHT CONCURRENTLY (async, one shared cache, replies released FIFO/LIFO) (repeating an operation = identical arguments) x cache {shared along the history, fresh per call} x {sync, async} x clock {fixed, advancing one L2 "
    "interval per call}; each history is run under a logging entropy source that never repeats a block (os.urandom and AESGCM.generate_key seams) and again under the real sources "
    "(and a third time, for 8 long histories, under a source whose blocks are pairwise distinct but agree under Adler-32, CRC-32, octet multiset, shared prefixes / suffixes; no draw of a protect call may be shorter than 96 bits). From every emitted blob the GCM nonce, key_info (nonce / ephemeral public key), the CEK (unwrapped with the reference KEK) and the ciphertext are extracted. Oracle: within a history all CEKs, all GCM nonces and all key_infos "
    "are pairwise distinct, equal plaintexts give different ciphertexts, GCM nonce is 12 bytes and the key-id nonce 32. Threads: two OS threads calling the sync protect API at once on one shared cache under a controlled scheduler (baton; scheduling point = every source line of dpapi_ng): every schedule with <=1 preemption (thorough: <=2 at function-entry granularity), same oracle. state = history prefix / schedule; transition = one API call / one scheduling point. Non-trivial = histories with >= 2 protects."
    ' Also histories over {A, N = protect(the latest blob), M = protect(the latest blob + suffix), K = the application keeps DPAPINGBlob.unpack(latest blob) alive, U} up to depth 3 (thorough 4).'
    ' Long histories include the EMPTY secret in nonce and public-key mode (ZZ, ZAZUZ, AZZA, YY, ZYZY).'
)
ASSUME = ["distinctness is demanded, not equality with a logged draw, so an implementation using another OS entropy interface is judged on real randomness (false alarm needs a 96-bit collision)"]
BOUND = {"quick": "2 thread pairs, preemption bound 1 at line granularity; depth 3 over all 6 ops + depth 4 over the 4 nonce-mode ops", "thorough": "6 thread pairs bound 1 (line), 1 pair bound 2 (function entry); depth 4 over all 6 ops + depth 5 over the 4 nonce-mode ops"}

SID1, SID2 = "S-1-5-21-1-2-3-1104", "S-1-5-21-1-2-3-1105"
P1, P2 = b"plaintext-one", b"plaintext-two!"
OPS = ["A", "B", "C", "U", "D", "E", "F"]  # F: protect naming a root key the cache does not hold: first call fetches seed keys from the DC, later ones hit the cache
NOW = (361, 10, 12)
FT0 = NOW[0] * 1024 * gkdi.B + NOW[1] * 32 * gkdi.B + NOW[2] * gkdi.B + 7

_w: t.Dict[str, t.Any] = {}


def world(seed: int):
    if _w.get("seed") != seed:
        d = seams.Drbg(("C19", seed))
        _w.update(seed=seed, rkN=seams.make_root(d, "SHA512"), rkD=seams.make_root(d, "SHA256", "DH"), rkE=seams.make_root(d, "SHA384", "ECDH_P256"), rkS=seams.make_root(d, "SHA256"))
        _w["rkG"] = seams.make_root(d, "SHA256", "DH")._replace(priv_len=509)  # a private-key bit length that is not a multiple of 8
        _w["by_id"] = {r.rkid: r for r in (_w["rkN"], _w["rkD"], _w["rkE"], _w["rkS"], _w["rkG"])}
    return _w


def _ctx(u, p, **kw):
    return secctx.ScriptedContext([b"C1"], 16)


def run_history(w, hist: str, shared: bool, api: str, advancing: bool, real_entropy: bool):
    """-> list of (op, status, value)"""
    import dpapi_ng

    dc = refdc.DC([w["rkD"], w["rkE"], w["rkN"], w["rkS"], w["rkG"]], now=NOW, authorised=False)
    dc.authorised_roots = {w["rkS"].rkid}
    cache = seams.make_cache(w["rkN"])

    def all_roots():
        c = seams.make_cache(w["rkN"])
        seams.load_root(c, w["rkD"])
        seams.load_root(c, w["rkE"])
        seams.load_root(c, w["rkS"])
        seams.load_root(c, w["rkG"])
        return c

    cache_u = all_roots()  # unprotect needs the root key of whichever blob came last (public-key blobs cannot be opened by the unauthorised caller)
    out: t.List[t.Tuple[str, str, t.Any]] = []
    last_blob: t.Optional[bytes] = None
    kept: t.List[t.Any] = []
    ent = seams.Entropy(b"C19", collide=(real_entropy == "collide"))

    def go():
        nonlocal last_blob, cache, cache_u
        if "R" in hist:
            import random

            random.seed(20240229)  # the same fixed state at the start of the history as after every R: independent of what ran before in this process
        for i, op in enumerate(hist):
            if not shared:
                cache = seams.make_cache(w["rkN"])
                cache_u = all_roots()
            ft = FT0 + (i * gkdi.B if advancing else 0)
            dc.now = gkdi.interval(ft)
            kw = dict(server="dc", username="u", password="p", auth_protocol="ntlm", cache=cache)
            with seams.clock(ft):
                try:
                    if op == "R":
                        # the application (or a test runner) puts the interpreter-wide PRNG back into a fixed state
                        import random

                        random.seed(20240229)
                        out.append((op, "skip", None))
                        continue
                    if op == "H":
                        # protect naming rkS through a DC that stands at L2 = 31 and omits the L2 key (allowed shape), with a cache of its own:
                        # every such call gets its key material straight from a GetKey reply
                        dch = refdc.DC([w["rkS"]], now=(NOW[0], NOW[1], 31))
                        dch.l2_at_31 = False
                        fth = (NOW[0] * 1024 + NOW[1] * 32 + 31) * gkdi.B + 9 + i
                        with seams.clock(fth), transport.network(dch):
                            fh = (dpapi_ng.ncrypt_protect_secret, dpapi_ng.async_ncrypt_protect_secret)[api == "async"]
                            kwh = dict(kw, cache=dpapi_ng.KeyCache(), root_key_identifier=w["rkS"].rkid)
                            vh = fh(P1, SID1, **kwh) if api == "sync" else vloop.run(fh(P1, SID1, **kwh))
                        last_blob = bytes(vh)
                        out.append((op, "ok", bytes(vh)))
                        continue
                    if op == "K":
                        # the application parses the latest blob (to look at its key identifier) and keeps the parsed object
                        if last_blob is not None:
                            from dpapi_ng._blob import DPAPINGBlob

                            kept.append(DPAPINGBlob.unpack(last_blob))
                        out.append((op, "skip", None))
                        continue
                    if op in "NM" and last_blob is None:
                        out.append((op, "skip", None))
                        continue
                    if op == "U":
                        if last_blob is None:
                            out.append((op, "skip", None))
                            continue
                        f = (dpapi_ng.ncrypt_unprotect_secret, dpapi_ng.async_ncrypt_unprotect_secret)[api == "async"]
                        args: t.Tuple[t.Any, ...] = (last_blob,)
                        kw["cache"] = cache_u
                    elif op in "NM":
                        # a stored secret is refreshed: the latest blob itself (N) / the latest blob plus a suffix (M) is protected again, same SID and key
                        f = (dpapi_ng.ncrypt_protect_secret, dpapi_ng.async_ncrypt_protect_secret)[api == "async"]
                        args = (last_blob if op == "N" else last_blob + b"+suffix", SID1)
                        kw["root_key_identifier"] = w["rkN"].rkid
                    else:
                        f = (dpapi_ng.ncrypt_protect_secret, dpapi_ng.async_ncrypt_protect_secret)[api == "async"]
                        pt, sid, rk = {"A": (P1, SID1, "rkN"), "B": (P2, SID1, "rkN"), "C": (P1, SID2, "rkN"), "D": (P1, SID1, "rkD"), "E": (P1, SID1, "rkE"), "F": (P1, SID1, "rkS"), "G": (P1, SID1, "rkG"), "Z": (b"", SID1, "rkN"), "Y": (b"", SID1, "rkE")}[op]
                        args = (pt, sid)
                        kw["root_key_identifier"] = w[rk].rkid
                    v = f(*args, **kw) if api == "sync" else vloop.run(f(*args, **kw))
                    if op != "U":
                        last_blob = bytes(v)
                    out.append((op, "ok", bytes(v)))
                except Exception as e:  # noqa: BLE001
                    out.append((op, "exc", repr(e)))

    with transport.network(dc), secctx.scripted_client(_ctx):
        if real_entropy is True:
            go()
        else:
            with seams.entropy(ent):
                go()
    return out, ent


_PROCESS_SEEN: t.Dict[str, t.Dict[bytes, t.Any]] = {"cek": {}, "gcm-nonce": {}, "key_info": {}}


def judge(acc, w, hist: str, shared: bool, api: str, advancing: bool, real_entropy: bool, shard_case=None, concurrent=None, given=None) -> None:
    if given is not None:
        case, res, ent = given
    elif concurrent is not None:
        case = ["conc", hist, concurrent, real_entropy]
        res, ent = run_concurrent(w, hist, concurrent, real_entropy)
    else:
        case = ["hist", hist, shared, api, advancing, real_entropy]
        res, ent = run_history(w, hist, shared, api, advancing, real_entropy)
    ceks: t.List[bytes] = []
    nonces: t.List[bytes] = []
    infos: t.List[bytes] = []
    cts: t.Dict[bytes, t.List[bytes]] = {}
    for i, (op, st, v) in enumerate(res):
        if st == "exc":
            acc.violate("op-failed", case, {"op": op, "index": i, "exc": v}, size=len(hist))
            return
        if st == "skip":
            continue
        if op == "U":
            continue
        try:
            b = cms.decode(v)
            kid = gkdi.unpack_keyid(b.keyid)
            pt, cek, _, _ = cms.ref_decrypt(w["by_id"][kid.rkid], v, want_cek=True)
        except Exception as e:  # noqa: BLE001
            acc.violate("blob-unreadable", case, {"op": op, "index": i, "exc": repr(e)}, size=len(hist))
            return
        n = cms.gcm_nonce(b)
        if len(n) != 12:
            acc.violate("gcm-nonce-length", case, {"len": len(n)}, size=len(hist))
        if not kid.flags & 1 and len(kid.key_info) != 32:
            acc.violate("keyid-nonce-length", case, {"len": len(kid.key_info)}, size=len(hist))
        ceks.append(cek)
        nonces.append(n)
        infos.append(kid.key_info)
        cts.setdefault(pt, []).append(b.enc_content)
    for name, vals in (("cek", ceks), ("gcm-nonce", nonces), ("key_info", infos)):
        if len(set(vals)) != len(vals):
            dup = [i for i, x in enumerate(vals) if vals.index(x) != i]
            acc.violate(f"reused.{name}", case, {"protect_calls": len(vals), "repeat_at": dup, "value": vals[dup[0]].hex()[:80]}, size=len(hist))
    if real_entropy is True:
        # with the real entropy sources every value ever produced in this process must be new, also across histories
        for name, vals in (("cek", ceks), ("gcm-nonce", nonces), ("key_info", infos)):
            seen = _PROCESS_SEEN[name]
            for x in vals:
                if x in seen and seen[x] != case:
                    # replayable only as the whole shard (the repeat depends on every call made before in this process)
                    acc.violate(f"reused.{name}.across-calls-in-process", shard_case or case, {"history": case, "first_seen_in": seen[x], "value": x.hex()[:80], "calls_so_far": len(seen)}, size=10**5)
                    break
                seen[x] = case
    for pt, lst in cts.items():
        if len(set(lst)) != len(lst):
            acc.violate("equal-ciphertexts", case, {"plaintext": pt.hex()}, size=len(hist))
    acc.outcome(f"protects={len(ceks)}")
    if len(ceks) >= 2:
        acc.nt(("h", hist, shared, api, advancing, real_entropy))
    if real_entropy is not True:
        acc.stat_max("entropy_draws_logged", len(ent.log))
        # no value of a protect call rests on less entropy than the shortest of the three (the 96-bit GCM nonce)
        short = [(who, len(v)) for who, v in ent.log if len(v) < 12]
        if short:
            acc.violate("entropy.short-draw", case, {"draws_shorter_than_96_bits": short[:6], "draws": len(ent.log)}, size=len(hist))
        vals = [v for _, v in ent.log]
        assert len(set(vals)) == len(vals), "entropy source repeated a block"


def run_concurrent(w, ops: str, lifo: bool, real_entropy: bool):
    """several async protect calls in flight at once on one shared cache (virtual loop, replies held back and then released FIFO / LIFO)"""
    import dpapi_ng

    dc = refdc.DC([w["rkD"], w["rkE"], w["rkN"], w["rkS"]], now=NOW, authorised=False)
    dc.authorised_roots = {w["rkS"].rkid}
    cache = dpapi_ng.KeyCache()  # no root key: every call has to go to the DC
    ent = seams.Entropy(b"C19c")
    loop = vloop.VirtualLoop()
    out: t.List[t.Tuple[str, str, t.Any]] = []

    def go():
        with seams.clock(FT0), transport.network(dc, defer=True) as hub, secctx.scripted_client(_ctx):
            def idle() -> bool:
                if not hub.pending:
                    return False
                if lifo:
                    hub.pending.insert(0, hub.pending.pop())
                return hub.release_chunk()

            loop.on_idle = idle
            coros = []
            for op in ops:
                pt, sid, rk = {"A": (P1, SID1, "rkS"), "B": (P2, SID1, "rkS"), "C": (P1, SID2, "rkS"), "D": (P1, SID1, "rkD"), "E": (P1, SID1, "rkE"), "F": (P1, SID1, "rkS")}[op]
                coros.append(dpapi_ng.async_ncrypt_protect_secret(pt, sid, root_key_identifier=w[rk].rkid, server="dc", username="u", password="p", auth_protocol="ntlm", cache=cache))
            try:
                res = loop.run_many(coros)
            except vloop.Deadlock as e:
                res = [("exc", e)] * len(ops)
            for op, (st, v) in zip(ops, res):
                out.append((op, "ok", bytes(v)) if st == "ok" else (op, "exc", repr(v)))

    try:
        if real_entropy is True:
            go()
        else:
            with seams.entropy(ent):
                go()
    finally:
        loop.shutdown()
    return out, ent


THREAD_PAIRS = ["AA", "AB", "AC", "AF", "FF", "DD"]
THREAD_PARTS = 8


def thread_bodies(w, ops: str):
    """two OS threads calling the sync API at once with one shared KeyCache (root key loaded for rkN; F/D go to the reference DC)"""
    import dpapi_ng

    cache = seams.make_cache(w["rkN"])
    bodies = []
    for op in ops:
        pt, sid, rk = {"A": (P1, SID1, "rkN"), "B": (P2, SID1, "rkN"), "C": (P1, SID2, "rkN"), "D": (P1, SID1, "rkD"), "F": (P1, SID1, "rkS")}[op]
        bodies.append(lambda pt=pt, sid=sid, rk=rk: dpapi_ng.ncrypt_protect_secret(pt, sid, root_key_identifier=w[rk].rkid, server="dc", username="u", password="p", auth_protocol="ntlm", cache=cache))
    return bodies, cache


def threads_explore(acc, w, ops: str, bound: int, part: int, parts: int, coarse: bool, only_choices=None) -> None:
    from mc import explorer, threads

    dc = refdc.DC([w["rkD"], w["rkE"], w["rkN"], w["rkS"]], now=NOW, authorised=False)
    dc.authorised_roots = {w["rkS"].rkid}
    ent = seams.Entropy(b"C19t")

    def on(ch, s, res, ctx) -> None:
        case = ["threads", ops, coarse, [[i, c] for i, c in enumerate(ch.choices) if c]]  # sparse: (choice point, non-default choice)
        out = [(op, "ok", bytes(v)) if st == "ok" else (op, "exc", repr(v)) for op, (st, v) in zip(ops, res)]
        judge(acc, w, ops, True, "sync", False, False, given=(case, out, ent))
        acc.ev()
        acc.states += 1
        acc.transitions += len(ch.trace)
        acc.set_add("thread_switch_points", tuple(s.switches))
        acc.nt(("t", ops, tuple(s.switches)))

    with seams.clock(FT0), transport.network(dc), secctx.scripted_client(_ctx), seams.entropy(ent):
        if only_choices is not None:
            ch = explorer.Chooser(only_choices)
            bodies, ctx = thread_bodies(w, ops)
            s = threads.Sched(ch, coarse)
            on(ch, s, s.run(bodies), ctx)
            return
        st = threads.explore(lambda: thread_bodies(w, ops), bound, on, coarse=coarse, root_filter=lambda i: i % parts == part)
    acc.stat_add("thread_schedules", st["executions"])
    acc.stat_max("thread_choice_points_per_schedule", st["max_depth"])
    acc.sample({"threads": [f"protect {o}" for o in ops], "preemption_bound": bound, "granularity": "function entry" if coarse else "source line", "schedules": st["executions"], "choice_points_per_schedule": st["max_depth"]})


def shards(tier: str, seed: int):
    out = [["long", api] for api in ("sync", "async")] + [["collide", api] for api in ("sync", "async")] + [["nested", api] for api in ("sync", "async")] + [["conc"]] + [["extra", api] for api in ("sync", "async")]
    for ops in (THREAD_PAIRS[:2] if tier == "quick" else THREAD_PAIRS):
        for part in range(THREAD_PARTS):
            out.append(["threads", ops, 1, part, THREAD_PARTS, False])
    if tier == "thorough":
        for part in range(32):
            out.append(["threads", "AA", 2, part, 32, True])
    depth = 4 if tier == "quick" else 5
    for first in OPS:
        for shared in (True, False):
            for api in ("sync", "async"):
                out.append(["h", first, shared, api, depth])
    return out


def run_shard(shard, tier, seed, acc) -> None:
    seams.block_network()
    w = world(seed)
    for d_ in _PROCESS_SEEN.values():
        d_.clear()  # per shard, so that a shard is a self-contained, replayable unit
    if shard[0] == "threads":
        _, ops, bound, part, parts, coarse = shard
        threads_explore(acc, w, ops, bound, part, parts, coarse)
        return
    if shard[0] == "conc":
        n = 0
        for k in (2, 3):
            for ops in itertools.product("AFDE", repeat=k):
                for lifo in (False, True):
                    for real in (False, True):
                        judge(acc, w, "".join(ops), True, "async", False, real, None, concurrent=lifo)
                        n += 1
                        acc.ev()
                        acc.states += 1
                        acc.transitions += k
        acc.sample({"concurrent async protects on one cache": "all tuples of 2..3 calls over {A,F,D,E}", "delivery": ["FIFO", "LIFO"]})
        return
    if shard[0] == "extra":
        # histories over {A, G (public-key mode, DH root key with a 509-bit private key), R (global PRNG reseeded to a constant),
        # H (seed keys straight from a DC that omits the L2 key at L2 = 31)}
        n = 0
        for k in range(2, 4 if tier == "quick" else 5):
            for h in itertools.product("AGRH", repeat=k):
                hist = "".join(h)
                if sum(c != "R" for c in hist) < 2:
                    continue
                for real in (False, True):
                    judge(acc, w, hist, True, shard[1], False, real, ["shard", shard, tier])
                    n += 1
                    acc.ev()
                    acc.states += 1
                    acc.transitions += len(hist)
        acc.sample({"extra alphabet": {"A": "protect(P1,SID1)", "G": "public-key mode, DH root key with a 509-bit private key", "R": "random.seed(constant)"}, "histories": n})
        return
    if shard[0] == "nested":
        # histories over {A, N (the latest blob protected again), M (latest blob + suffix protected again), K (the application keeps the parsed
        # latest blob alive), U}
        n = 0
        for k in range(2, 4 if tier == "quick" else 5):
            for h in itertools.product("ANMKU", repeat=k):
                hist = "".join(h)
                if sum(c in "ANM" for c in hist) < 2 or hist[0] != "A":
                    continue
                for real in (False, True):
                    judge(acc, w, hist, True, shard[1], False, real, ["shard", shard, tier])
                    n += 1
                    acc.ev()
                    acc.states += 1
                    acc.transitions += len(hist)
        acc.sample({"alphabet": {"A": "protect(P1,SID1)", "N": "protect(latest blob, SID1)", "M": "protect(latest blob + suffix, SID1)", "K": "keep DPAPINGBlob.unpack(latest blob) alive", "U": "unprotect(latest)"}, "histories": n})
        return
    if shard[0] == "collide":
        # entropy that never repeats a block but whose blocks agree under cheap digests (Adler-32, CRC-32, octet multiset, shared prefixes
        # and suffixes): distinct draws must still give distinct values
        n = 0
        hists = ["A" * 12, "ABC" * 4, "AUAUAUAUAUAUAUAUAUAUAUA", "F" * 12, "D" * 12, "E" * 12, "G" * 12, "ADEADEADEADEADEADEADEADEADEADEADE"]
        for hist in hists:
            for shared in (True, False):
                for advancing in (False, True):
                    judge(acc, w, hist, shared, shard[1], advancing, "collide", ["shard", shard, tier])
                    n += 1
                    acc.ev()
                    acc.states += 1
                    acc.transitions += len(hist)
        acc.sample({"colliding entropy": {str(k): [x.hex() for x in seams.collision_family(b"C19", k)] for k in (12,)}, "histories": hists})
        return
    if shard[0] == "long":
        # one long history (N protects with identical / alternating arguments, far beyond the depth bound) under both entropy sources
        # (Z, Y: the EMPTY secret, nonce mode / public-key mode - its ciphertext is the 16-octet GCM tag, different every time)
        for hist in ("A" * 256, "AB" * 40 + "U" + "AC" * 24, "E" * 12 + "D" * 6, "ZZ", "ZAZUZ", "AZZA", "YY", "ZYZY"):
            for real in (False, True):
                judge(acc, w, hist, True, shard[1], False, real, ["shard", shard, tier])
                acc.ev()
                acc.states += 1
                acc.transitions += len(hist)
        acc.sample({"long_history": "96 x protect(P1,SID1) in one process", "api": shard[1]})
        return
    _, first, shared, api, depth = shard
    n = 0
    for k in range(0, depth):
        # the deepest level is explored over the nonce-mode alphabet only (public-key calls cost ~10 ms each); all shallower levels in full
        alpha = OPS if k < depth - 1 else [o for o in OPS if o in "ABCUF"]
        if k == depth - 1 and first not in "ABCUF":
            continue
        for rest in itertools.product(alpha, repeat=k):
            hist = first + "".join(rest)
            for advancing in (False, True):
                for real in (False, True):
                    if real and (n % 3):  # the real-entropy pass: every third configuration (still every history shape at depth <= 3)
                        if len(hist) > 3:
                            n += 1
                            continue
                    judge(acc, w, hist, shared, api, advancing, real, ["shard", shard, tier])
                    n += 1
                    acc.ev()
                    acc.states += 1
                    acc.transitions += len(hist)
    acc.sample({"history": hist, "ops": {"A": "protect(P1,SID1)", "B": "protect(P2,SID1)", "C": "protect(P1,SID2)", "U": "unprotect(latest)", "D": "protect via DC, DH public key", "E": "protect via DC, P-256 public key"}, "cache_shared": shared, "api": api})


def replay(case, seed, acc) -> None:
    seams.block_network()
    acc.ev()
    if case[0] == "conc":
        judge(acc, world(seed), case[1], True, "async", False, case[3], None, concurrent=case[2])
        return
    if case[0] == "threads":
        dense = [0] * (max([i for i, _ in case[3]] or [-1]) + 1)
        for i, c in case[3]:
            dense[i] = c
        threads_explore(acc, world(seed), case[1], 0, 0, 1, case[2], only_choices=dense)
        return
    _, hist, shared, api, advancing, real = case
    judge(acc, world(seed), hist, shared, api, advancing, real)


def calibrate() -> None:
    from mc.runner import HarnessError

    try:
        cms.calibrate()
    except AssertionError as e:
        raise HarnessError(f"calibration failed: {e!r}") from e


def finish(tier, seed, merged) -> None:
    from mc.runner import Vacuous

    if not merged.violation_count and not any(k.startswith("protects=") and int(k.split("=")[1]) >= 3 for k in merged.outcomes):
        raise Vacuous("no history with >= 3 protect calls")
