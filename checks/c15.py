"""C15 — bind/auth handshake relays tokens faithfully and fails closed."""
from __future__ import annotations

import itertools
import typing as t

from env import refdc, secctx, seams, transport
from mc import budget, explorer, vloop
from ref import cms, dcerpc as rpc

ID = "C15"
LEVEL = "model_checking"
RULE = (
    "deviation-bounded DFS over server behaviours on the ISD_KEY connection, played against the real client through ncrypt_unprotect_secret / async_ncrypt_unprotect_secret: one choice per client PDU "
    "(bind, each alter_context): ack of the right type x result vector {(accept,negotiate_ack),(accept,reject),(reject,negotiate_ack),(reject,accept)} x token {next server token, none} | ack of the wrong type | "
    "bind_nak | fault | response | EOF (13 options); for the request: sealed response | fault | bind_ack | EOF; one script-level choice: header-sign flag pattern of the server's acks {always set, never, clear in the first ack then set, set in the first ack then clear}. x 11 scripted "
    "authentication providers (1..4 legs; final empty token; completion only after one more server token). Default = the well-behaved server; deviation bound 2 (quick) / 3 (thorough) plus the full tree for the "
    "2-leg provider. Invariants on every execution: I1 tokens in client PDUs == provider's non-empty outputs in order, first in bind, rest in alter_context; I2 step inputs == server tokens in arrival order; "
    "I3 no step/alter_context after completion, none for an empty token; I4 request only on an accepted context after a clean handshake, level 6, provider's auth type; I5 sign_only buffers must be used when every client bind/alter PDU and every processed ack advertised header signing, and must not be used when some processed ack lacked the flag or the "
    "client's bind did not advertise it; I8 sync and async make the same observable decisions for the same server script (PDU types, tokens, flags, buffer typing, outcome class); I6 nak/fault/unexpected type/EOF/rejection of the desired context => exception, never a plaintext; I7 termination in the step budget, alter_contexts <= provider legs. "
    "state = choice-tree node (prefix of server answers); transition = one client PDU answered."
    " Also, at the RPC client level, contexts offered in 10 id orders x every accept / reject vector x {authenticated, not}: an alter_context re-offers only contexts the server accepted (positionally, as on the wire) and the returned results line up with the caller's list. For two thirds of the providers the server's PDUs arrive in 7- / 100-octet segments."
    ' A fifth server pattern mirrors the header-sign flag of the PDU it answers; I5b: a flag advertised in bind is not withdrawn in an alter_context while every processed ack carried it.'
)
ASSUME = ["scripted provider and scripted peer: only the enumerated behaviours are covered", "the EPM hop runs unscripted-correct (its failure modes are C18's)"]
BOUND = {"quick": "deviation bound 2, 11 providers, sync + async", "thorough": "deviation bound 3; full tree (depth 4) for the 2-leg and 3-leg providers"}

SID = "S-1-5-21-1-2-3-1104"
PT = b"c15"
VECTORS = [(0, 3), (0, 2), (2, 3), (2, 0)]
ACK_MENU: t.List[t.Tuple[str, t.Any]] = [("ack", v, tok) for v in VECTORS for tok in (True, False)] + [("wrongtype",), ("nak",), ("fault",), ("busy",), ("response",), ("eof",)]
REQ_MENU = [("sealed",), ("fault",), ("busy",), ("bind_ack",), ("eof",)]


def providers() -> t.List[t.Tuple[str, t.List[bytes], int]]:
    out = []
    for L in (1, 2, 3, 4):
        out.append((f"legs{L}", [b"C-TOK-%d" % i for i in range(1, L + 1)], L - 1))
    for L in (2, 3, 4):
        out.append((f"legs{L}-lastempty", [b"C-TOK-%d" % i for i in range(1, L)] + [b""], L - 1))
    for L in (1, 2, 3, 4):
        out.append((f"legs{L}-mutual", [b"C-TOK-%d" % i for i in range(1, L + 1)], L))
    for L in (2, 3):
        # the mechanism hands out an empty token although the context is NOT yet established (it still waits for the peer)
        out.append((f"legs{L}-emptyincomplete", [b"C-TOK-%d" % i for i in range(1, L)] + [b""], L))
    return out


_w: t.Dict[str, t.Any] = {}


def world(seed: int):
    if _w.get("seed") != seed:
        d = seams.Drbg(("C15", seed))
        rk = seams.make_root(d, "SHA256")
        _w.update(seed=seed, rk=rk, blob=cms.ref_encrypt(rk, SID, PT, (361, 3, 5), cek=d.bytes(32), gcm_nonce_=d.bytes(12), key_nonce=d.bytes(32)))
    return _w


class ScriptConn(refdc.Conn):
    def __init__(self, dc, ch: explorer.Chooser, sign_flag: bool, log: dict) -> None:
        super().__init__(dc, "isd", "dc", dc.isd_port)
        self.ch, self.sign_pattern, self.slog = ch, sign_flag, log
        self.ack_no = 0
        self.ctx = secctx.ScriptedContext([], 16, role="server")

    def on_pdu(self, raw: bytes) -> t.Optional[bytes]:
        d = rpc.decode(raw, strict=False)
        self.slog["client_pdus"].append(d)
        pt = d["ptype"]
        if pt in (rpc.BIND, rpc.ALTER_CONTEXT):
            k = self.ch.choose(len(ACK_MENU), "bind" if pt == rpc.BIND else "alter")
            act = ACK_MENU[k]
            self.slog["actions"].append(("bind" if pt == rpc.BIND else "alter", act))
            # header-sign flag per ack: 0 = always set, 1 = never, 2 = clear in the first ack then set, 3 = set in the first ack then clear
            first = self.ack_no == 0
            # 4 = the server mirrors the flag of the PDU it answers
            sflag = {0: True, 1: False, 2: not first, 3: first, 4: bool(d["flags"] & rpc.PFC_SIGN)}[self.sign_pattern]
            flags = 3 | (rpc.PFC_SIGN if sflag else 0)
            right = rpc.BIND_ACK if pt == rpc.BIND else rpc.ALTER_CONTEXT_RESP
            wrong = rpc.ALTER_CONTEXT_RESP if pt == rpc.BIND else rpc.BIND_ACK
            a = d["auth"] or dict(type=10, level=6, ctx=0)
            if act[0] in ("ack", "wrongtype"):
                vec = act[1] if act[0] == "ack" else VECTORS[0]
                with_tok = act[2] if act[0] == "ack" else True
                res = [((vec[i] if i < 2 else 2), 0, rpc.NDR64 if (vec[i] if i < 2 else 2) == 0 else refdc.NIL) for i in range(len(d["contexts"]))]
                self.ack_no += 1
                # token shapes a real mechanism produces: trailing NUL octets (NTLM CHALLENGE ends in MsvAvEOL, SPNEGO accept-completed in 0x00),
                # leading NUL, trailing blank, 0xFF ends - the client must relay every octet
                shape = (b"S-TOK-%d\x00\x00\x00\x00", b"\x00S-TOK-%d\xff", b"S-TOK-%d \x00", b"\xa1\x07\x30\x05\xa0\x03\x0a\x01\x00%d")[self.ack_no % 4]
                tok = shape % self.ack_no if with_tok else None
                self.slog["server_tokens"].append(tok)
                if act[0] == "ack":
                    self.slog["ack_sign_flags"].append(sflag)
                if pt == rpc.BIND:
                    self.slog["bind_vector"] = vec if act[0] == "ack" else None
                    self.slog["client_sign_flag"] = bool(d["flags"] & rpc.PFC_SIGN)
                auth = dict(type=a["type"], level=a["level"], ctx=a["ctx"], token=tok) if tok is not None else None
                # secondary address of every length residue mod 4 (5-, 4-, 2- and 3-digit ports), by script position
                sec_addr = (b"49664\x00", b"5000\x00", b"99\x00", b"135\x00")[(self.ack_no + len(tok or b"")) % 4]
                return rpc.enc_ack_like(right if act[0] == "ack" else wrong, flags, d["call_id"], res, auth, sec_addr if pt == rpc.BIND else b"")
            # a server that refuses a bind tears the connection down right after its answer: the client's shutdown() then meets ENOTCONN
            self.torn_down = True
            if act[0] == "nak":
                return rpc.enc_bind_nak(d["call_id"], 4)
            if act[0] == "fault":
                return rpc.enc_fault(d["call_id"], 0, 0x1C010003)
            if act[0] == "busy":  # "server too busy", nothing was executed (PFC_DID_NOT_EXECUTE): still a failure of this exchange
                self.torn_down = False
                return rpc.enc_fault(d["call_id"], 0, 0x1C010014, flags=3 | 0x20)
            if act[0] == "response":
                return rpc.enc_response(d["call_id"], 0, b"\x00" * 8)
            return None
        if pt == rpc.REQUEST:
            k = self.ch.choose(len(REQ_MENU), "request")
            act = REQ_MENU[k]
            self.slog["actions"].append(("request", act))
            if act[0] == "sealed":
                self.state = "READY"
                self.auth_type = d["auth"]["type"] if d["auth"] else 10
                self.auth_level = 6
                self.sign_header = True  # unseal() below tries both buffer typings; what the client used is judged by I5
                self.accepted = {0: (rpc.ISD_KEY, rpc.NDR64)}
                ev = self.log(dir="c2s", what="request", pdu=d, raw=raw)
                return self.on_getkey(d, raw, ev)
            if act[0] == "fault":
                return rpc.enc_fault(d["call_id"], 0, 5)
            if act[0] == "busy":
                return rpc.enc_fault(d["call_id"], 0, 0x000006BB, flags=3 | 0x20)
            if act[0] == "bind_ack":
                return rpc.enc_ack_like(rpc.BIND_ACK, 3, d["call_id"], [(0, 0, rpc.NDR64)], None, b"1\x00")
            return None
        return None


    def unseal(self, d, raw, ev):
        err = None
        for sh in (True, False):
            self.sign_header = sh
            snap = (self.ctx.seq_in,)
            try:
                return super().unseal(d, raw, ev)
            except Exception as e:  # noqa: BLE001
                self.ctx.seq_in = snap[0]
                err = e
        raise err  # type: ignore[misc]


class ScriptDC(refdc.DC):
    def __init__(self, rk, ch, log) -> None:
        super().__init__([rk], now=(361, 10, 12))
        self.ch, self.slog = ch, log
        self.sign_flag: t.Optional[bool] = None

    def connect(self, host, port):
        if port == self.isd_port:
            if self.sign_flag is None:
                self.sign_flag = self.ch.choose(5, "server-header-sign-pattern")
                self.slog["sign_pattern"] = self.sign_flag
            c = ScriptConn(self, self.ch, self.sign_flag, self.slog)
            self.conns.append(c)
            return c
        return super().connect(host, port)


STEP_LIMIT = 300000


def run_one(seed: int, api: str, prov, ch: explorer.Chooser):
    import dpapi_ng

    w = world(seed)
    name, tokens, complete_after = prov
    log: t.Dict[str, t.Any] = dict(client_pdus=[], actions=[], server_tokens=[], provider=None, ack_sign_flags=[])
    dc = ScriptDC(w["rk"], ch, log)
    # how the server's PDUs reach the client is not the subject here, but it must not matter: per provider, whole PDUs, 7-octet or 100-octet segments
    seg = (0, 7, 100)[sum(map(ord, name)) % 3]
    if seg:
        dc.segment = lambda reply, seg=seg: [reply[i : i + seg] for i in range(0, len(reply), seg)]

    def factory(u, p, **kw):
        c = secctx.ScriptedContext(tokens, 16, complete_after=complete_after)
        c.strict_completion = True
        log["provider"] = c
        log["provider_kw"] = kw
        return c

    # (a mixed-case server name: whatever the client remembers about a server, it must find again under the name it was given)
    kw = dict(server="DC01.Verif.Test", username="u", password="p", auth_protocol="ntlm")
    with transport.network(dc), secctx.scripted_client(factory):
        try:
            if api == "sync":
                v = budget.run(STEP_LIMIT, dpapi_ng.ncrypt_unprotect_secret, w["blob"], **kw)[0]
            else:
                v = budget.run(STEP_LIMIT, vloop.run, dpapi_ng.async_ncrypt_unprotect_secret(w["blob"], **kw))[0]
            log["result"] = ("ok", bytes(v))
        except budget.BudgetExceeded as e:
            log["result"] = ("budget", repr(e))
        except (transport.BlocksForever, transport.Spin, vloop.Deadlock) as e:
            log["result"] = ("blocks", repr(e))
        except Exception as e:  # noqa: BLE001
            log["result"] = ("exc", (type(e).__name__, str(e)[:120]))
    return log


def invariants(log: dict, prov) -> t.List[t.Tuple[str, dict]]:
    import spnego.iov as siov

    name, tokens, complete_after = prov
    out: t.List[t.Tuple[str, dict]] = []
    p = log["provider"]
    st, val = log["result"]
    pdus = log["client_pdus"]
    acts = log["actions"]
    if st in ("budget", "blocks"):
        out.append(("I7.termination", {"detail": val}))
        return out
    if st == "exc" and val[0] in ("AttributeError", "TypeError", "NameError", "UnboundLocalError", "AssertionError"):
        # "surfaces as an error" means the rejection itself is reported - not that the caller trips over an internal state left behind by a
        # swallowed error (e.g. a key lookup that silently returned nothing)
        out.append(("I9.error-is-an-internal-crash", {"exception": list(val), "actions": repr(acts)[:200]}))
    if p is None:
        out.append(("harness.no-provider", {}))
        return out
    # I1
    outputs = []
    for i in range(len(p.steps)):
        outputs.append(tokens[i] if i < len(tokens) else b"")
    sent = [(d["ptype"], d["auth"]["token"] if d["auth"] else None) for d in pdus if d["ptype"] in (rpc.BIND, rpc.ALTER_CONTEXT)]
    want = [o for o in outputs if o]
    got = [tk for _, tk in sent]
    if got != want:
        out.append(("I1.tokens", {"sent": [repr(x) for x in got], "provider_outputs": [repr(x) for x in outputs]}))
    if sent and sent[0][0] != rpc.BIND or any(ptype != rpc.ALTER_CONTEXT for ptype, _ in sent[1:]):
        out.append(("I1.pdu-types", {"types": [ptype for ptype, _ in sent]}))
    # I2
    acks = [a for a in acts if a[0] in ("bind", "alter")]
    arrived = []  # server tokens of acks the client could process (right type)
    for i, (kind, act) in enumerate(acks):
        if act[0] == "ack":
            arrived.append(log["server_tokens"][len(arrived)] if len(arrived) < len(log["server_tokens"]) else None)
        elif act[0] == "wrongtype":
            arrived.append("skip")
    # re-derive the server tokens in order for ack actions only
    stoks = []
    j = 0
    for kind, act in acks:
        if act[0] in ("ack", "wrongtype"):
            tok = log["server_tokens"][j]
            j += 1
            if act[0] == "ack":
                stoks.append(tok)
            else:
                break
        else:
            break
    inputs = p.steps
    if inputs and inputs[0] not in (None, b""):
        out.append(("I2.first-input", {"first": repr(inputs[0])}))
    for k, inp in enumerate(inputs[1:]):
        if k >= len(stoks):
            out.append(("I2.extra-step", {"inputs": [repr(x) for x in inputs], "server_tokens": [repr(x) for x in stoks]}))
            break
        exp = stoks[k]
        if (exp is None and inp not in (None, b"")) or (exp is not None and inp != exp):
            out.append(("I2.input", {"step": k + 1, "input": repr(inp), "server_token": repr(exp)}))
            break
    # I3
    if p.calls_after_complete:
        out.append(("I3.step-after-complete", {"steps": len(p.steps), "complete_after": complete_after}))
    n_alter = sum(1 for d in pdus if d["ptype"] == rpc.ALTER_CONTEXT)
    if any(d["ptype"] == rpc.ALTER_CONTEXT and (d["auth"] is None or not d["auth"]["token"]) for d in pdus):
        out.append(("I3.alter-with-empty-token", {}))
    if n_alter > len(tokens):
        out.append(("I7.too-many-alter-contexts", {"alter_contexts": n_alter, "legs": len(tokens)}))
    # I4 / I6
    bad = False
    for kind, act in acts:
        if kind in ("bind", "alter") and act[0] != "ack":
            bad = True
        if kind == "bind" and act[0] == "ack" and act[1][0] != 0:
            bad = True
        if kind == "request" and act[0] != "sealed":
            bad = True
    reqs = [d for d in pdus if d["ptype"] == rpc.REQUEST]
    pre_bad = False
    for kind, act in acts:
        if kind == "request":
            break
        if (kind in ("bind", "alter") and act[0] != "ack") or (kind == "bind" and act[0] == "ack" and act[1][0] != 0):
            pre_bad = True
    if reqs:
        if pre_bad:
            out.append(("I4.request-after-failed-handshake", {"actions": repr(acts)}))
        r = reqs[0]
        if r["ctx_id"] != 0 or r["auth"] is None or r["auth"]["level"] != 6 or r["auth"]["type"] != 10:
            out.append(("I4.request-fields", {"ctx_id": r["ctx_id"], "auth": None if r["auth"] is None else [r["auth"]["type"], r["auth"]["level"]]}))
        if len(reqs) > 1:
            out.append(("I4.several-requests", {"n": len(reqs)}))
    if name.endswith("emptyincomplete") and st == "ok":
        out.append(("I6.fail-open-unfinished-context", {"actions": repr(acts), "returned": repr(val)}))
    if bad and st == "ok":
        out.append(("I6.fail-open", {"actions": repr(acts), "returned": repr(val)}))
    if not bad and st == "ok" and val != PT:
        out.append(("I6.wrong-plaintext", {"returned": repr(val)}))
    if not bad and not name.endswith("emptyincomplete") and not any(a[0] == "ack" and (a[1] != VECTORS[0] or not a[2]) for _, a in acts if a[0] == "ack") and st != "ok":
        out.append(("liveness.default-script-failed", {"result": repr(val), "actions": repr(acts)}))
    # I5b: a client that advertised header signing in its bind keeps advertising it in every alter_context for as long as every ack it has
    # processed carried the flag too (withdrawing it half-way makes a server that mirrors the flag drop header signing although both sides offered it)
    a_c_all = [bool(d["flags"] & rpc.PFC_SIGN) for d in pdus if d["ptype"] in (rpc.BIND, rpc.ALTER_CONTEXT)]
    a_s_all = list(log.get("ack_sign_flags", []))
    if a_c_all and a_c_all[0]:
        for i_ in range(1, len(a_c_all)):
            if all(a_s_all[:i_]) and len(a_s_all) >= i_ and not a_c_all[i_]:
                out.append(("I5.header-signing-withdrawn-in-alter-context", {"client_pdu_flags": a_c_all, "server_ack_flags": a_s_all}))
                break
    # I5
    if p.wraps:
        a_c = [bool(d["flags"] & rpc.PFC_SIGN) for d in pdus if d["ptype"] in (rpc.BIND, rpc.ALTER_CONTEXT)]
        a_s = list(log.get("ack_sign_flags", []))
        must_sign = bool(a_c) and all(a_c) and bool(a_s) and all(a_s)
        # "exactly when both sides advertised it": the client in its bind, the server in every ack the client processed
        must_not = (not all(a_s)) or (not a_c) or (not a_c[0])
        for wv in p.wraps:
            types = [ty for ty, _ in wv["iov"]]
            uses = siov.BufferType.sign_only in types
            if (uses and must_not) or (not uses and must_sign):
                out.append(("I5.header-signing", {"sign_only_used": uses, "client_pdu_flags": a_c, "server_ack_flags": a_s}))
                break
    return out


def shards(tier: str, seed: int):
    out = []
    for i in range(len(providers())):
        out.append(["dfs", "both", i, 2 if tier == "quick" else 3])
    if tier == "thorough":
        out.append(["dfs", "both", 1, 99])
        out.append(["dfs", "both", 2, 99])
    out += [["ctx-order", api] for api in ("sync", "async")]
    return out


CTX_ORDERS = [[0, 1], [1, 0], [0, 1, 2], [2, 0, 1], [1, 2, 0], [2, 1, 0], [7, 3], [3, 7, 5], [65535, 0], [0, 65535, 1]]


class OrderConn(refdc.Conn):
    """answers a bind positionally (result i belongs to the i-th context ON THE WIRE) with a given accept / reject vector, runs a 3-leg
    handshake, and records which context ids every later alter_context offers and every request names"""

    def __init__(self, dc, vec, log) -> None:
        super().__init__(dc, "isd", "dc", dc.isd_port)
        self.vec, self.olog, self.n = vec, log, 0

    def on_pdu(self, raw: bytes) -> t.Optional[bytes]:
        d = rpc.decode(raw, strict=False)
        pt = d["ptype"]
        a = d["auth"] or dict(type=10, level=6, ctx=0)
        if pt == rpc.BIND:
            ids = [c[0] for c in d["contexts"]]
            self.olog["bind_ids"] = ids
            self.olog["accepted"] = {ids[i] for i in range(len(ids)) if self.vec[i]}
            res = [(0, 0, rpc.NDR64) if self.vec[i] else (2, 2, refdc.NIL) for i in range(len(ids))]
            auth = dict(type=a["type"], level=a["level"], ctx=a["ctx"], token=b"S-TOK-1") if d["auth"] else None
            return rpc.enc_ack_like(rpc.BIND_ACK, 3, d["call_id"], res, auth, b"49664\x00")
        if pt == rpc.ALTER_CONTEXT:
            ids = [c[0] for c in d["contexts"]]
            self.olog["alter_ids"].append(ids)
            res = [(0, 0, rpc.NDR64) for _ in ids]
            self.n += 1
            auth = dict(type=a["type"], level=a["level"], ctx=a["ctx"], token=b"S-TOK-%d" % (self.n + 1)) if d["auth"] else None
            return rpc.enc_ack_like(rpc.ALTER_CONTEXT_RESP, 3, d["call_id"], res, auth, b"")
        return None


def run_ctx_order(api: str, order, vec, auth: bool):
    from dpapi_ng._gkdi import ISD_KEY
    from dpapi_ng._rpc import NDR64, ContextElement, async_create_rpc_connection, create_rpc_connection

    log: t.Dict[str, t.Any] = dict(alter_ids=[], bind_ids=None, accepted=None)

    class _DC(refdc.DC):
        def connect(self_, host, port):  # noqa: N805
            c = OrderConn(self_, vec, log)
            self_.conns.append(c)
            return c

    d_ = seams.Drbg(("C15order",))
    dc = _DC([seams.make_root(d_, "SHA256")], now=(361, 10, 12))
    ctxs = [ContextElement(i, ISD_KEY, [NDR64]) for i in order]
    kw = dict(username="u", password="p", auth_protocol="ntlm") if auth else {}
    with transport.network(dc), secctx.scripted_client(lambda u, p, **k: secctx.ScriptedContext([b"C1", b"C2", b"C3"], 16)):
        try:
            if api == "sync":
                c = create_rpc_connection("dc", dc.isd_port, **kw)
                try:
                    ack = budget.run(STEP_LIMIT, c.bind, contexts=ctxs)[0]
                finally:
                    c.close()
            else:

                async def go():
                    c = await async_create_rpc_connection("dc", dc.isd_port, **kw)
                    try:
                        return await c.bind(contexts=ctxs)
                    finally:
                        await c.close()

                ack = budget.run(STEP_LIMIT, vloop.run, go())[0]
            log["result"] = ("ok", [int(r.result) for r in ack.results])
        except budget.BudgetExceeded as e:
            log["result"] = ("budget", repr(e))
        except Exception as e:  # noqa: BLE001
            log["result"] = ("exc", (type(e).__name__, str(e)[:120]))
    return log


def summary(log: dict):
    """what an observer of the wire and of the provider sees, independent of the API flavour"""
    import spnego.iov as siov

    p = log["provider"]
    pdus = [(d["ptype"], d["flags"], None if d["auth"] is None else (d["auth"]["type"], d["auth"]["level"], d["auth"]["token"]), d.get("ctx_id"), d.get("opnum"), tuple(c[0] for c in d.get("contexts", []))) for d in log["client_pdus"]]
    wraps = [tuple(str(ty) for ty, _ in w["iov"]) for w in (p.wraps if p else [])]
    unwraps = [tuple(str(ty) for ty, _ in w["iov"]) for w in (p.unwraps if p else [])]
    st, val = log["result"]
    res = (st, val if st == "ok" else None)  # outcome class only: the two flavours may legitimately raise different exception types (e.g. on EOF)
    return (pdus, list(p.steps) if p else None, wraps, unwraps, res)


def judge_ctx_order(acc, api, order, vec, auth) -> None:
    log = run_ctx_order(api, order, vec, auth)
    case = ["ctx-order", api, list(order), list(vec), auth]
    st, val = log["result"]
    acc.ev()
    acc.states += 1
    acc.transitions += 1 + len(log["alter_ids"])
    acc.nt(("ctx-order", api, tuple(order), tuple(vec), auth))
    if log["bind_ids"] is None or sorted(log["bind_ids"]) != sorted(order):
        acc.violate("ctx-order.bind-contexts", case, {"on_the_wire": log["bind_ids"], "offered": list(order)})
        return
    if st == "budget":
        acc.violate("I7.termination", case, {"detail": val})
        return
    # whatever the order on the wire, the server answered position by position: an alter_context re-offers accepted contexts only
    for ids in log["alter_ids"]:
        bad = [i for i in ids if i not in log["accepted"]]
        if bad:
            acc.violate("ctx-order.alter-context-offers-rejected-context", case, {"alter_context_ids": ids, "accepted_by_server": sorted(log["accepted"]), "bind_order_on_the_wire": log["bind_ids"]})
    # and the results the caller gets back line up with the list the caller handed in
    if st == "ok":
        want = [0 if order[i] in log["accepted"] else 2 for i in range(len(order))]
        if val != want:
            acc.violate("ctx-order.results-misaligned", case, {"results_returned": val, "for_contexts": list(order), "accepted_by_server": sorted(log["accepted"])})
    acc.outcome("ctx-order:" + st)


def run_shard(shard, tier, seed, acc) -> None:
    seams.block_network()
    if shard[0] == "ctx-order":
        for order in CTX_ORDERS:
            for vec in itertools.product((True, False), repeat=len(order)):
                for auth in (True, False):
                    judge_ctx_order(acc, shard[1], order, vec, auth)
        acc.sample({"context id orders": CTX_ORDERS, "accept/reject vectors": "all", "api": shard[1]})
        return
    _, _both, pi, bound = shard
    prov = providers()[pi]
    seen: t.Dict[str, t.Dict[t.Tuple[int, ...], t.Any]] = {"sync": {}, "async": {}}
    for api in ("sync", "async"):
        _dfs(acc, seed, api, pi, prov, bound, seen[api])
    # I8: the two flavours must behave identically under every explored script
    for choices, ssum in seen["sync"].items():
        asum = seen["async"].get(choices)
        if asum is None:
            acc.violate("I8.sync-async.different-choice-trees", ["script-both", pi, list(choices)], {"note": "the async client did not reach the same choice points"}, size=len(choices) * 10 + sum(choices))
        elif asum != ssum:
            which = next(i for i, (x, y) in enumerate(zip(ssum, asum)) if x != y)
            acc.violate("I8.sync-async.differ", ["script-both", pi, list(choices)], {"component": ["pdus", "provider-steps", "wrap-buffer-types", "unwrap-buffer-types", "result"][which], "sync": repr(ssum[which])[:300], "async": repr(asum[which])[:300], "provider": prov[0]}, size=len(choices) * 10 + sum(choices))


def _dfs(acc, seed, api, pi, prov, bound, seen) -> None:
    def body(ch):
        return run_one(seed, api, prov, ch)

    def on_exec(ch, log):
        seen[tuple(ch.choices)] = summary(log)
        acc.ev()
        acc.states += 1
        acc.transitions += len(ch.trace)
        acc.nt(("x", api, pi, tuple(ch.choices)))
        acc.outcome(f"result:{log['result'][0]}")
        acc.stat_max("dpapi_lines", budget.last_steps())
        for key, det in invariants(log, prov):
            det["provider"] = prov[0]
            det["labels"] = [lab for _, _, lab in ch.trace]
            acc.violate(key, ["script", api, pi, ch.choices], det, size=len(ch.choices) * 10 + sum(ch.choices))

    stats = explorer.explore(body, bound, on_exec)
    acc.stat_max("choice_points", stats["max_depth"])
    acc.sample({"api": api, "provider": prov[0], "deviation_bound": bound, "executions": stats["executions"], "example_script": "header-sign set; bind->ack(accept,negotiate_ack)+token; ...; request->sealed response"})


def replay(case, seed, acc) -> None:
    seams.block_network()
    if case[0] == "ctx-order":
        judge_ctx_order(acc, case[1], case[2], case[3], case[4])
        return
    if case[0] == "script-both":
        _, pi, choices = case
        prov = providers()[pi]
        sums = [summary(run_one(seed, api, prov, explorer.Chooser(choices))) for api in ("sync", "async")]
        acc.ev()
        if sums[0] != sums[1]:
            acc.violate("I8.sync-async.differ", case, {"sync": repr(sums[0])[:400], "async": repr(sums[1])[:400]})
        return
    _, api, pi, choices = case
    prov = providers()[pi]
    ch = explorer.Chooser(choices)
    log = run_one(seed, api, prov, ch)
    acc.ev()
    for key, det in invariants(log, prov):
        acc.violate(key, case, det)


def calibrate() -> None:
    from mc.runner import HarnessError

    try:
        rpc.calibrate()
    except AssertionError as e:
        raise HarnessError(f"calibration failed: {e!r}") from e


def finish(tier, seed, merged) -> None:
    from mc.runner import Vacuous

    if merged.violation_count:
        return
    if not merged.outcomes.get("result:ok") or not merged.outcomes.get("result:exc"):
        raise Vacuous("both successful and failing handshakes must occur")
