"""C10 — KeyCache is transparent under any history / interleaving and avoids repeat RPCs.

Explicit exploration of API histories over one shared KeyCache (sequential part) and of all start/completion orders of
concurrent async calls on the virtual event loop (concurrent part), against the reference DC and a 15-line reference model.
"""
from __future__ import annotations

import asyncio
import copy
import typing as t

from env import refdc, secctx, seams, transport
from mc import budget, explorer, vloop
from ref import cms, dtyp, gkdi

ID = "C10"
LEVEL = "model_checking"
RULE = (
    "sequential part: every operation sequence of length <=3 (thorough: <=4 over a 10-operation sub-alphabet) over 19 operations {load root key; unprotect blob of triple T at position p "
    "(14 (T,p) over 2 SIDs x 2 L0 values); protect for SD1/SD2 with/without naming the root key} x 4 DC policies {authorised+exact position, the same with the L2 key omitted at L2'=31, authorised+later covering "
    "envelope, not authorised (public key only, depth 3)}; the live KeyCache is shared along a history (prefix sharing by deep copy, cross-checked against replay from scratch). "
    "mixed part: histories of length <=3 over 17 operations {load; 4 operations on one triple x {sync, async} x {caller is a group member, caller is not (public key only)}} on one shared cache. "
    "thread part: 3 (quick) / 6 (thorough) pairs of sync calls from two OS threads on one shared cache under a controlled scheduler (scheduling point = function entry (quick) / every source line (thorough) of dpapi_ng), every schedule with <= 1 preemption (thorough: one pair with <= 2), then every probe; oracle: transparency under every thread schedule (the economy clause is demanded of sequences and async schedules only). "
    "cancellation part: the same two-call schedules where, in addition, the application may cancel a call that waits for the DC (asyncio.Task.cancel; bound 2): the cancelled call ends cancelled, every other call and every later probe is transparent. "
    "concurrent part: 2 (quick) / 3 (thorough) async calls on the same triple sharing one cache on the virtual loop; choice point = which task starts / which pending connection "
    "gets its next reply; deviation bound 2 / 3 from run-to-completion order; every execution is continued by each sequential probe operation. Oracle: (1) every call returns within the "
    "step budget with the known plaintext / a blob the reference decryptor opens at key id = now, exceptions only where a fresh cache gives the same; (2) reference model covered[T]=max "
    "position obtained, root_loaded: a call the model says is covered makes zero GetKey RPCs. state = history (sequence of operations / schedule prefix); transition = one API call."
    ' The same sequence exploration (depth 3, 8 operations, 3 DC policies) is repeated with the clock in the last L2 interval (A,10,31).'
    ' Also 17 / 40 triples on one long-lived cache: after the first round through the DC, three further rounds in other orders make no RPC (sync and async).'
)
ASSUME = ["reference DC with the scripted security context (authentication is C15-C17's subject)", "deep copy of the live KeyCache is equivalent to replaying the history (cross-checked on sampled histories)"]
BOUND = {"quick": "depth 3 over 19 ops x 4 policies; mixed flavour/caller histories depth 3 over 19 ops; 2 concurrent tasks, deviation bound 2", "thorough": "depth 3 over all 19 ops x 4 policies + depth 4 over the 10 ops of triple T1 (exact, later); mixed depth 3; 3 concurrent tasks, deviation bound 3"}

A, Bb = 361, 360
NOW = (A, 10, 12)
NOW_FT = A * 1024 * gkdi.B + 10 * 32 * gkdi.B + 12 * gkdi.B + 12345
_SEQ_TAG = ["seq"]


def set_now(l2: int) -> None:
    """the instant at which every operation of a shard happens: (A, 10, 12) by default; the seq31 shards stand in the LAST L2 interval (A, 10, 31)"""
    global NOW, NOW_FT
    NOW = (A, 10, l2)
    NOW_FT = A * 1024 * gkdi.B + 10 * 32 * gkdi.B + l2 * gkdi.B + 12345
    _SEQ_TAG[0] = "seq" if l2 == 12 else "seq31"
SID1 = "S-1-5-21-1-2-3-1104"
SID2 = "S-1-5-21-1-2-3-1105"
PT = b"c10-plaintext"
TRIPLES = {"T1": (SID1, A), "T2": (SID2, A), "T3": (SID1, Bb)}
# (T1 (9,20) and T3 (19,7) lie in the L1 interval directly below another listed position of their triple; T3 (11,0) directly follows T3 (10,31); T2 (0,3) and (0,5) lie in the first L1 interval, where a DC envelope has no L1 key)
UNPROT = [("T1", (3, 5)), ("T1", (3, 20)), ("T1", (9, 20)), ("T1", (10, 5)), ("T1", (10, 12)), ("T2", (0, 3)), ("T2", (0, 5)), ("T2", (10, 12)), ("T3", (3, 5)), ("T3", (19, 7)), ("T3", (20, 0)), ("T3", (31, 31)), ("T3", (10, 31)), ("T3", (11, 0))]
OPS: t.List[t.Tuple[t.Any, ...]] = [("load",)] + [("unprot", T, p) for T, p in UNPROT] + [("prot", s, named) for s in ("T1", "T2") for named in (True, False)]
# depth 4 (thorough) runs over the 10 operations that concern triple T1 and the L1-boundary neighbours of T3
OPS4: t.List[t.Tuple[t.Any, ...]] = [o for o in OPS if o[0] == "load" or o[1] == "T1" or (o[0] == "unprot" and o[1] == "T3" and tuple(o[2]) in ((10, 31), (11, 0)))]
# the same kind of histories while the clock stands in the last L2 interval of its L1 interval, (A, 10, 31): operations of triple T1 plus a blob of that very interval
OPS31: t.List[t.Tuple[t.Any, ...]] = [("load",), ("unprot", "T1", (3, 5)), ("unprot", "T1", (10, 5)), ("unprot", "T1", (10, 31)), ("unprot", "T1", (9, 31)), ("prot", "T1", True), ("prot", "T1", False), ("prot", "T2", True)]
POLICIES = ["exact", "later", "unauth", "noL2"]  # noL2: exact position, the envelope omits the L2 key when L2'=31
# mixed histories: each operation additionally names its API flavour and its caller (a group member served with seed keys, or a
# non-member whom the DC only hands the public key) - all sharing ONE cache
MIXED_BASE = [("unprot", "T1", (3, 5)), ("unprot", "T1", (10, 12)), ("prot", "T1", True), ("prot", "T1", False)]
MIXED_OPS: t.List[t.Tuple[t.Any, ...]] = [("load",)] + [b + (fl, who) for b in MIXED_BASE for fl in ("sync", "async") for who in ("exact", "unauth")]


def eff_policy(op, policy: str) -> str:
    return op[4] if len(op) > 4 else policy
STEP_LIMIT = 400000

_w: t.Dict[str, t.Any] = {}


def world(seed: int):
    if _w.get("seed") != seed:
        d = seams.Drbg(("C10", seed))
        rk = seams.make_root(d, "SHA256")
        blobs = {}
        for T, p in UNPROT + [("T1", (10, 31)), ("T1", (9, 31))]:
            sid, l0 = TRIPLES[T]
            blobs[(T, p)] = cms.ref_encrypt(rk, sid, PT, (l0, p[0], p[1]), cek=d.bytes(32), gcm_nonce_=d.bytes(12), key_nonce=d.bytes(32), domain="domain.test", forest="domain.test")
        sds = {T: dtyp.target_sd(dtyp.parse_sid_string(TRIPLES[T][0])) for T in TRIPLES}
        _w.update(seed=seed, rk=rk, blobs=blobs, sds=sds)
    return _w


def worker_init() -> None:
    seams.block_network()


def mk_dc(w, policy: str) -> refdc.DC:
    dc = refdc.DC([w["rk"]], now=NOW, authorised=policy != "unauth", cover="later" if policy == "later" else "exact")
    dc.l2_at_31 = policy != "noL2"
    return dc


def _ctx(u, p, **kw):
    return secctx.ScriptedContext([b"C1"], 16)


KW = dict(server="dc", username="u", password="p", auth_protocol="ntlm")


def call_sync(w, cache, op):
    import dpapi_ng

    if op[0] == "load":
        seams.load_root(cache, w["rk"])
        return None
    if op[0] == "unprot":
        return dpapi_ng.ncrypt_unprotect_secret(w["blobs"][(op[1], tuple(op[2]))], cache=cache, **KW)
    return dpapi_ng.ncrypt_protect_secret(PT, TRIPLES[op[1]][0], root_key_identifier=w["rk"].rkid if op[2] else None, cache=cache, **KW)


def coro_async(w, cache, op):
    import dpapi_ng

    if op[0] == "unprot":
        return dpapi_ng.async_ncrypt_unprotect_secret(w["blobs"][(op[1], tuple(op[2]))], cache=cache, **KW)
    return dpapi_ng.async_ncrypt_protect_secret(PT, TRIPLES[op[1]][0], root_key_identifier=w["rk"].rkid if op[2] else None, cache=cache, **KW)


def run_op(w, cache, op, policy: str):
    """-> (status, value, dc) ; status ok|exc|budget|blocks"""
    dc = mk_dc(w, eff_policy(op, policy))
    with seams.clock(NOW_FT), transport.network(dc), secctx.scripted_client(_ctx):
        try:
            if len(op) > 3 and op[3] == "async":
                v = budget.run(STEP_LIMIT, lambda: vloop.run(coro_async(w, cache, op)), kdf_limit=200)[0]
            else:
                v = budget.run(STEP_LIMIT, call_sync, w, cache, op, kdf_limit=200)[0]
            return "ok", v, dc
        except budget.BudgetExceeded as e:
            return "budget", repr(e), dc
        except (transport.BlocksForever, transport.Spin, vloop.Deadlock) as e:
            return "blocks", repr(e), dc
        except seams.NeedsNetwork as e:
            return "exc", ("NeedsNetwork", str(e)), dc
        except Exception as e:  # noqa: BLE001
            return "exc", (type(e).__name__, str(e)[:140]), dc


# -- reference model -----------------------------------------------------------------------------------------


def new_model() -> dict:
    return {"root": False, "cov": {}}


def op_target(op) -> t.Optional[t.Tuple[str, t.Tuple[int, int]]]:
    """(triple, position) whose key the op needs from the cache, or None if the cache cannot serve it by contract"""
    if op[0] == "unprot":
        return op[1], tuple(op[2])
    if op[0] == "prot" and op[2]:
        return op[1], (NOW[1], NOW[2])
    return None


def model_covered(m: dict, op) -> bool:
    tg = op_target(op)
    if tg is None:
        return False
    if m["root"]:
        return True
    c = m["cov"].get(tg[0])
    return c is not None and c >= tg[1]


def model_update(w, m: dict, op, dc: refdc.DC) -> dict:
    m2 = {"root": m["root"] or op[0] == "load", "cov": dict(m["cov"])}
    for rkid, sd, pos, seeded in dc.returned:
        if not seeded:
            continue
        for T, (sid, l0) in TRIPLES.items():
            if w["sds"][T] == sd and l0 == pos[0]:
                cur = m2["cov"].get(T)
                if cur is None or (pos[1], pos[2]) > cur:
                    m2["cov"][T] = (pos[1], pos[2])
    return m2


def expected_failure(m: dict, op, policy: str) -> bool:
    """fresh-cache behaviour: only unprotect for a caller who gets no seed keys fails"""
    return op[0] == "unprot" and eff_policy(op, policy) == "unauth" and not m["root"] and not model_covered(m, op)


def check_result(w, m: dict, op, policy: str, status: str, value, dc: refdc.DC, case, acc, tag: str = "") -> None:
    calls = len(dc.getkey_calls)
    size = len(case[2]) if len(case) > 2 and isinstance(case[2], list) else 1
    if status in ("budget", "blocks"):
        acc.violate(f"{tag}no-termination", case, {"op": op, "detail": value}, size=size)
        return
    if expected_failure(m, op, policy):
        if status != "exc":
            acc.violate(f"{tag}expected-error-missing", case, {"op": op, "value": repr(value)[:100]}, size=size)
        acc.outcome("error-as-fresh-cache")
    elif status == "exc":
        acc.violate(f"{tag}transparency.exception", case, {"op": op, "exc": value, "model": repr(m), "getkey_calls": calls}, size=size)
        return
    elif op[0] == "unprot":
        if bytes(value) != PT:
            acc.violate(f"{tag}transparency.plaintext", case, {"op": op, "got": repr(bytes(value))[:60]}, size=size)
    elif op[0] == "prot":
        try:
            pt, cek, b, kid = cms.ref_decrypt(w["rk"], bytes(value), want_cek=True)
            if pt != PT or (kid.l0, kid.l1, kid.l2) != NOW or b.sid != TRIPLES[op[1]][0]:
                acc.violate(f"{tag}transparency.blob", case, {"op": op, "key_id": [kid.l0, kid.l1, kid.l2], "pt": repr(pt)}, size=size)
        except Exception as e:  # noqa: BLE001
            acc.violate(f"{tag}transparency.blob-unreadable", case, {"op": op, "exc": repr(e)}, size=size)
    if model_covered(m, op):
        if calls:
            acc.violate(f"{tag}economy.repeat-rpc", case, {"op": op, "getkey_calls": [list(c[2:]) for c in dc.getkey_calls], "model": repr(m)}, size=size)
        acc.outcome("covered:no-rpc" if not calls else "covered:RPC")
    else:
        acc.outcome("uncovered:rpc" if calls else "uncovered:no-rpc")


# -- sequential exploration ------------------------------------------------------------------------------------


def dfs(w, acc, policy: str, cache, model: dict, history: t.List[t.Any], depth_left: int, counter: t.List[int], ops=None) -> None:
    for op in ops or OPS:
        if acc.too_many():
            return
        c2 = copy.deepcopy(cache)
        status, value, dc = run_op(w, c2, op, policy)
        hist2 = history + [list(op)]
        case = [_SEQ_TAG[0], policy, hist2]
        check_result(w, model, op, policy, status, value, dc, case, acc)
        m2 = model_update(w, model, op, dc)
        counter[0] += 1
        acc.transitions += 1
        acc.states += 1
        acc.set_add("model_states", (m2["root"], tuple(sorted(m2["cov"].items()))))
        acc.stat_max("dpapi_lines_per_call", budget.last_steps())
        if counter[0] % 97 == 0:
            crosscheck(w, acc, policy, hist2, status, value)
        if depth_left > 1 and status == "ok" or (depth_left > 1 and status == "exc"):
            dfs(w, acc, policy, c2, m2, hist2, depth_left - 1, counter, ops)


def replay_history(w, policy: str, hist):
    import dpapi_ng

    cache = dpapi_ng.KeyCache()
    last = None
    for op in hist:
        last = run_op(w, cache, tuple(op[:1]) + tuple(tuple(x) if isinstance(x, list) else x for x in op[1:]), policy)
    return last


def crosscheck(w, acc, policy, hist, status, value) -> None:
    st2, v2, _ = replay_history(w, policy, hist)
    same = st2 == status and (status != "ok" or hist[-1][0] != "unprot" or bytes(v2) == bytes(value))
    acc.stat_add("deepcopy_vs_replay_crosschecks")
    if not same:
        acc.violate("harness.deepcopy-differs-from-replay", [_SEQ_TAG[0], policy, hist], {"copy": [status, repr(value)[:80]], "replay": [st2, repr(v2)[:80]]})


# -- concurrent exploration ------------------------------------------------------------------------------------


def run_concurrent(w, policy: str, ops: t.Sequence[t.Any], ch: explorer.Chooser, preload: bool = False, cancellable: bool = False):
    """returns (results per task, cache, dc, event order)"""
    import dpapi_ng

    cache = dpapi_ng.KeyCache()
    dc = mk_dc(w, policy)
    loop = vloop.VirtualLoop()
    order: t.List[str] = []
    n = len(ops)
    with seams.clock(NOW_FT), transport.network(dc, defer=True) as hub, secctx.scripted_client(_ctx):
        orig_open = hub.open_connection

        async def open_tagged(host=None, port=None, **k):
            r, wtr = await orig_open(host, port, **k)
            wtr.owner = asyncio.current_task().get_name()
            return r, wtr

        gates: t.List[asyncio.Future] = []
        tasks: t.List[t.Any] = []
        cancelled: t.Set[int] = set()
        started = [False] * n

        async def gated(i: int):
            await gates[i]
            try:
                return await coro_async(w, cache, ops[i])
            finally:
                order.append(f"c{i}")

        current = [-1]

        def on_idle() -> bool:
            menu: t.List[t.Tuple[str, t.Any]] = []
            # canonical order: the task chosen last first (continuing it is not a deviation), then ascending ids
            for i in ([current[0]] if current[0] >= 0 else []) + [x for x in range(n) if x != current[0]]:
                if not started[i]:
                    menu.append((f"T{i}:start", ("start", i)))
                else:
                    for j, (wtr, chunks) in enumerate(hub.pending):
                        if getattr(wtr, "owner", None) == f"T{i}":
                            menu.append((f"T{i}:deliver", ("deliver", j)))
                            break
            if not menu:
                return False
            if cancellable:
                # the application cancels a call that is waiting for the DC (asyncio.Task.cancel): listed last, so it is always a deviation
                for i in range(n):
                    if started[i] and i not in cancelled and not tasks[i].done() and any(getattr(wtr, "owner", None) == f"T{i}" for wtr, _ in hub.pending):
                        menu.append((f"T{i}:cancel", ("cancel", i)))
            k = ch.choose(len(menu), ",".join(m[0] for m in menu)) if len(menu) > 1 else 0
            kind, arg = menu[k][1]
            current[0] = int(menu[k][0][1 : menu[k][0].index(":")])
            if kind == "start":
                started[arg] = True
                order.append(f"s{arg}")
                gates[arg].set_result(None)
            elif kind == "cancel":
                cancelled.add(arg)
                order.append(f"x{arg}")
                tasks[arg].cancel()
                # whatever the DC still had in flight for that call is dropped with its connection
                hub.pending[:] = [(wtr, ch_) for wtr, ch_ in hub.pending if getattr(wtr, "owner", None) != f"T{arg}"]
            else:
                hub.release(arg)
            return True

        loop.on_idle = on_idle
        from asyncio import events

        old = events._get_running_loop()
        events._set_running_loop(loop)
        try:
            with seams.patched(asyncio, "open_connection", open_tagged):
                gates.extend(loop.create_future() for _ in range(n))
                tasks.extend(loop.create_task(gated(i), name=f"T{i}") for i in range(n))
                status = "ok"
                try:
                    budget.run(STEP_LIMIT * n, _drain, loop, tasks)
                except budget.BudgetExceeded as e:
                    status = "budget"
                except vloop.Deadlock as e:
                    status = "deadlock"
                results = []
                for tk in tasks:
                    if not tk.done():
                        results.append(("pending", None))
                        tk.cancel()
                    elif tk.cancelled():
                        results.append(("exc", ("CancelledError", "")))
                    elif tk.exception() is not None:
                        e = tk.exception()
                        results.append(("exc", (type(e).__name__, str(e)[:140])))
                    else:
                        results.append(("ok", tk.result()))
        finally:
            events._set_running_loop(old)
            loop.shutdown()
    return status, results, cache, dc, order


def _drain(loop: vloop.VirtualLoop, tasks) -> None:
    while not all(tk.done() for tk in tasks):
        if not loop._step():
            raise vloop.Deadlock("tasks pending but nothing to run or deliver")


def concurrent_shard(w, acc, policy: str, ops, bound: int, preload: bool, cancellable: bool = False) -> None:
    probes = [op for op in OPS if op[0] != "load" and (op[1] == ops[0][1] or op[0] == "prot")]

    def body(ch: explorer.Chooser):
        return run_concurrent(w, policy, ops, ch, preload, cancellable)

    def on_exec(ch: explorer.Chooser, res) -> None:
        status, results, cache, dc, order = res
        case = ["conc-cancel" if cancellable else "conc", policy, [list(o) for o in ops], ch.choices]
        was_cancelled = {int(o[1:]) for o in order if o.startswith("x")}
        acc.ev()
        acc.states += 1
        acc.transitions += len(ch.trace) + len(ops)
        acc.set_add("orders", tuple(order))
        acc.nt(("conc", policy, tuple(map(repr, ops)), tuple(ch.choices)))
        if status != "ok":
            acc.violate(f"conc.{status}", case, {"order": order, "results": repr(results)[:200]}, size=len(ch.choices))
            return
        m0 = new_model()
        # each task individually: transparency (economy is not demanded of concurrent first calls)
        for i, (st, v) in enumerate(results):
            if i in was_cancelled:
                if st != "exc" or v[0] != "CancelledError":
                    acc.violate("conc.cancelled-task-did-not-end-cancelled", case + [f"task{i}"], {"result": repr((st, v))[:120]}, size=len(ch.choices))
                acc.outcome("cancelled")
                continue
            sub = refdc.DC([w["rk"]])  # empty log: economy not judged here
            mm = {"root": False, "cov": {}}
            check_result(w, mm if not model_covered(mm, ops[i]) else mm, ops[i], policy, st, v, sub, case + [f"task{i}"], acc, tag="conc.")
        # a cancelled call may or may not have stored what the DC sent it: after a cancellation only transparency is demanded of the probes
        m = model_update(w, m0, ("conc",), dc) if not was_cancelled else new_model()
        acc.stat_max("getkey_calls_concurrent", len(dc.getkey_calls))
        for pr in probes:
            c2 = copy.deepcopy(cache)
            st, v, pdc = run_op(w, c2, pr, policy)
            check_result(w, m, pr, policy, st, v, pdc, case + [["probe"] + list(pr)], acc, tag="conc.probe.")
            acc.transitions += 1

    stats = explorer.explore(body, bound, on_exec)
    acc.stat_max("schedule_choice_points", stats["max_depth"])
    acc.stat_add("schedules", stats["executions"])
    acc.sample({"concurrent_ops": [list(o) for o in ops], "policy": policy, "schedules_explored": stats["executions"], "deviation_bound": bound})


THREAD_PARTS = 8
THREAD_PAIRS = [
    [["unprot", "T1", [3, 5]], ["unprot", "T1", [10, 12]]],
    [["unprot", "T1", [10, 12]], ["unprot", "T1", [3, 5]]],
    [["load"], ["unprot", "T1", [3, 5]]],
    [["prot", "T1", True], ["unprot", "T1", [3, 5]]],
    [["prot", "T1", True], ["prot", "T1", True]],
    [["unprot", "T3", [3, 5]], ["load"]],
]


def thread_shard(w, acc, policy: str, ops, bound: int, coarse: t.Any, part: int, parts: int, only_choices=None, probe=None) -> None:
    """two OS threads calling the SYNC API at once on one shared KeyCache, under the controlled scheduler of mc/threads.py"""
    import dpapi_ng

    from mc import threads

    probes = [op for op in OPS if op[0] != "load" and (op[1] == (ops[0][1] if len(ops[0]) > 1 else ops[1][1]) or op[0] == "prot")]
    if bound >= 2 or coarse is False:
        # the expensive explorations (every source line; two preemptions) are followed by four probes: the operations themselves, the
        # first and the last of the list - the function-entry explorations by all of them
        keep = [o for o in ops if o[0] != "load"] + probes[:1] + probes[-1:]
        probes = [p_ for i_, p_ in enumerate(keep) if p_ not in keep[:i_]]
    # granularity: False = every dpapi_ng source line, True = function entries, "client" = every line of _client.py only (where the cache
    # and the four entry points live) - the last one keeps a preemption bound of 2 affordable
    only_files = {"_client.py"} if coarse == "client" else None
    coarse_flag = coarse is True
    state: t.Dict[str, t.Any] = {}

    def factory():
        cache = dpapi_ng.KeyCache()
        state["dc"] = dc = mk_dc(w, policy)
        state["net"] = transport.network(dc)
        state["net"].__enter__()
        return [(lambda op=op: call_sync(w, cache, op)) for op in ops], cache

    def on(ch, s, res, cache) -> None:
        state["net"].__exit__(None, None, None)
        dc = state["dc"]
        case = ["threads", policy, [list(o) for o in ops], coarse, [[i, c] for i, c in enumerate(ch.choices) if c]]
        acc.ev()
        acc.states += 1
        acc.transitions += len(ch.trace)
        acc.set_add("thread_switch_points", tuple(s.switches))
        acc.nt(("thr", policy, tuple(map(repr, ops)), tuple(s.switches)))
        m0 = new_model()
        for i, (st, v) in enumerate(res):
            stt, vv = ("ok", v) if st == "ok" else ("exc", (type(v).__name__, str(v)[:140]))
            if st == "exc" and isinstance(v, (transport.BlocksForever, transport.Spin, budget.BudgetExceeded)):
                stt, vv = "blocks", repr(v)
            check_result(w, m0, ops[i], policy, stt, vv, refdc.DC([w["rk"]]), case + [f"task{i}"], acc, tag="threads.")
        # Economy ("no repeat RPC") is NOT demanded after overlapping calls from two OS threads: the property quantifies over sequences and over
        # completion orders of concurrent *async* calls; a preemption between the check and the store inside KeyCache._store_key can make
        # the older of two envelopes win (observed: schedule [[3837, 1]] of the first pair), which costs one more RPC later and nothing
        # else. Transparency (right results, termination) is demanded under every thread schedule.
        m = new_model()
        if any(o[0] == "load" for o in ops):
            m["root"] = True
        for pr in probes:
            if probe is not None and list(pr) != list(probe):
                continue
            st, v, pdc = run_op(w, copy.deepcopy(cache), pr, policy)
            check_result(w, m, pr, policy, st, v, pdc, case + [["probe"] + list(pr)], acc, tag="threads.probe.")
            acc.transitions += 1

    with seams.clock(NOW_FT), secctx.scripted_client(_ctx):
        if only_choices is not None:
            from mc import explorer as ex

            ch = ex.Chooser(only_choices)
            bodies, cache = factory()
            s = threads.Sched(ch, coarse_flag, only_files)
            on(ch, s, s.run(bodies), cache)
            return
        stt = threads.explore(factory, bound, on, coarse=coarse_flag, root_filter=lambda i: i % parts == part, only_files=only_files)
    acc.stat_add("thread_schedules", stt["executions"])
    acc.stat_max("thread_choice_points_per_schedule", stt["max_depth"])
    acc.sample({"threads": [list(o) for o in ops], "policy": policy, "preemption_bound": bound, "granularity": {True: "function entry", False: "source line", "client": "source lines of _client.py"}[coarse], "schedules": stt["executions"]})


def shards(tier: str, seed: int):
    out = []
    for i_, pr in enumerate(THREAD_PAIRS if tier == "thorough" else [THREAD_PAIRS[0], THREAD_PAIRS[2], THREAD_PAIRS[3]]):
        # quick: function-entry granularity; thorough: every source line for three pairs, function entry for the other three
        coarse = tier == "quick" or i_ in (1, 4, 5)
        parts = THREAD_PARTS if coarse else 4 * THREAD_PARTS
        for part in range(parts):
            out.append(["threads", "exact", pr, 1, coarse, part, parts])
    if tier == "thorough":
        for pr in (THREAD_PAIRS[0],):
            for part in range(16):
                out.append(["threads", "exact", pr, 2, "client", part, 16])
    for pol in POLICIES:
        for i in range(len(OPS)):
            out.append(["seq", pol, i, 3])
        if tier == "thorough" and pol in ("exact", "later"):
            for i in range(len(OPS4)):
                out.append(["seq4", pol, i, 4])
    for pol in ("exact", "noL2", "later"):
        for i in range(len(OPS31)):
            out.append(["seq31", pol, i, 3])
    for i in range(len(MIXED_OPS)):
        out.append(["mixed", "exact", i, 3])
    out += [["many", api, nt_] for api in ("sync", "async") for nt_ in (17, 40)]
    pairs = []
    for T in ("T1", "T3"):
        ups = [op for op in OPS if op[0] == "unprot" and op[1] == T]
        for x in ups:
            for y in ups:
                pairs.append([list(x), list(y)])
    prots = [["prot", "T1", True], ["prot", "T1", False]]
    pairs += [[["unprot", "T1", [3, 5]], p] for p in prots] + [[p, ["unprot", "T1", [10, 12]]] for p in prots] + [[prots[0], prots[1]], [prots[1], prots[0]], [prots[0], prots[0]]]
    for pol in ("exact", "later"):
        for pr in pairs:
            out.append(["conc", pol, pr, 2])
    for pr in pairs[:6] + pairs[-7:]:
        out.append(["conc-cancel", "exact", pr, 2])
    if tier == "thorough":
        trip = [[["unprot", "T1", [10, 12]], ["unprot", "T1", [3, 5]], ["unprot", "T1", [3, 20]]], [["unprot", "T3", [3, 5]], ["unprot", "T3", [31, 31]], ["unprot", "T3", [20, 0]]],
                [["unprot", "T1", [3, 5]], ["prot", "T1", True], ["unprot", "T1", [10, 12]]], [["unprot", "T1", [3, 20]], ["unprot", "T1", [3, 5]], ["prot", "T1", False]]]
        for pol in ("exact", "later"):
            for tr in trip:
                out.append(["conc", pol, tr, 3])
    return out


def _norm(op) -> t.Tuple[t.Any, ...]:
    return tuple(tuple(x) if isinstance(x, list) else x for x in op)


def run_shard(shard, tier, seed, acc) -> None:
    worker_init()
    w = world(seed)
    set_now(31 if shard[0] == "seq31" else 12)
    if shard[0] in ("seq", "seq4", "mixed", "seq31"):
        import dpapi_ng

        _, pol, first, depth = shard
        ops = {"seq": OPS, "seq4": OPS4, "mixed": MIXED_OPS, "seq31": OPS31}[shard[0]]
        op = ops[first]
        cache = dpapi_ng.KeyCache()
        m = new_model()
        status, value, dc = run_op(w, cache, op, pol)
        case = [_SEQ_TAG[0], pol, [list(op)]]
        check_result(w, m, op, pol, status, value, dc, case, acc)
        m2 = model_update(w, m, op, dc)
        acc.states += 1
        acc.transitions += 1
        counter = [1]
        dfs(w, acc, pol, cache, m2, [list(op)], depth - 1, counter, ops)
        acc.ev(counter[0])
        acc.nt_counted(counter[0])
        acc.sample({"policy": pol if shard[0] == "seq" else "per operation", "history": [list(op), list(ops[(first + 3) % len(ops)]), list(ops[(first + 7) % len(ops)])]})
    elif shard[0] == "many":
        # a long-lived cache that serves MANY triples (one SID per computer, as LAPS does; several L0 periods): after one round of
        # unprotects through the DC every triple is covered - a second and third round, in other orders, make no RPC at all
        import dpapi_ng

        _, api, ntr = shard
        d_ = seams.Drbg(("C10many", seed))
        rk = w["rk"]
        trip = [(f"S-1-5-21-1-2-3-{2000 + i}", A - (i % 3)) for i in range(ntr)]
        blobs = [cms.ref_encrypt(rk, sid, PT, (l0, 3 + i % 5, 5), cek=d_.bytes(32), gcm_nonce_=d_.bytes(12), key_nonce=d_.bytes(32), domain="domain.test", forest="domain.test") for i, (sid, l0) in enumerate(trip)]
        cache = dpapi_ng.KeyCache()
        kw = dict(server="dc", username="u", password="p", auth_protocol="ntlm", cache=cache)
        n = 0
        for rnd, order in enumerate([list(range(ntr)), list(range(ntr)), list(range(ntr - 1, -1, -1)), [(7 * i) % ntr for i in range(ntr)] if ntr % 7 else list(range(ntr))]):
            for i in order:
                dc = refdc.DC([rk], now=NOW)
                case = ["many", api, ntr, rnd, i]
                with seams.clock(NOW_FT), transport.network(dc), secctx.scripted_client(_ctx):
                    try:
                        v = dpapi_ng.ncrypt_unprotect_secret(blobs[i], **kw) if api == "sync" else vloop.run(dpapi_ng.async_ncrypt_unprotect_secret(blobs[i], **kw))
                    except Exception as e:  # noqa: BLE001
                        acc.violate("many.transparency.exception", case, {"exc": repr(e)[:200]})
                        continue
                n += 1
                if bytes(v) != PT:
                    acc.violate("many.transparency.plaintext", case, {"got": bytes(v)[:20].hex()})
                if rnd > 0 and dc.returned:
                    acc.violate("many.economy.repeat-rpc", case, {"triples_on_the_cache": ntr, "round": rnd, "rpcs": len(dc.returned)}, size=ntr * 10 + rnd)
                acc.outcome("many:rpc" if dc.returned else "many:cached")
        acc.ev(n)
        acc.nt_counted(n)
        acc.states += n
        acc.transitions += n
        acc.sample({"triples on one cache": ntr, "rounds": 4, "api": api})
    elif shard[0] == "threads":
        _, pol, ops, bound, coarse, part, parts = shard
        thread_shard(w, acc, pol, [_norm(o) for o in ops], bound, coarse, part, parts)
    else:
        _, pol, ops, bound = shard
        concurrent_shard(w, acc, pol, [_norm(o) for o in ops], bound, False, cancellable=shard[0] == "conc-cancel")


def replay(case, seed, acc) -> None:
    worker_init()
    w = world(seed)
    acc.ev()
    set_now(31 if case[0] == "seq31" else 12)
    if case[0] == "many":
        run_shard(["many", case[1], case[2]], "quick", seed, acc)
        for kk in list(acc.violations):
            acc.violations[kk] = [e for e in acc.violations[kk] if e["case"] == case]
            if not acc.violations[kk]:
                del acc.violations[kk]
        acc.violation_count = sum(len(x) for x in acc.violations.values())
        return
    if case[0] in ("seq", "seq31"):
        import dpapi_ng

        _, pol, hist = case[:3]
        cache = dpapi_ng.KeyCache()
        m = new_model()
        for i, op in enumerate(hist):
            opn = _norm(op)
            status, value, dc = run_op(w, cache, opn, pol)
            if i == len(hist) - 1:
                check_result(w, m, opn, pol, status, value, dc, case, acc)
            m = model_update(w, m, opn, dc)
    elif case[0] == "threads":
        _, pol, ops, coarse, sparse = case[:5]
        dense = [0] * (max([i for i, _ in sparse] or [-1]) + 1)
        for i, c in sparse:
            dense[i] = c
        probe = case[5][1:] if len(case) > 5 and isinstance(case[5], list) else None
        thread_shard(w, acc, pol, [_norm(o) for o in ops], 0, coarse, 0, 1, only_choices=dense, probe=[_x for _x in _norm(probe)] if probe else None)
    else:
        _, pol, ops, choices = case[:4]
        ops = [_norm(o) for o in ops]
        ch = explorer.Chooser(choices)
        status, results, cache, dc, order = run_concurrent(w, pol, ops, ch, cancellable=case[0] == "conc-cancel")
        if status != "ok":
            acc.violate(f"conc.{status}", case, {"order": order})
            return
        was_cancelled = {int(o[1:]) for o in order if o.startswith("x")}
        for i, (st, v) in enumerate(results):
            if i not in was_cancelled:
                check_result(w, new_model(), ops[i], pol, st, v, refdc.DC([w["rk"]]), case, acc, tag="conc.")
        m = model_update(w, new_model(), ("conc",), dc) if not was_cancelled else new_model()
        if len(case) > 4 and isinstance(case[4], list) and case[4] and case[4][0] == "probe":
            pr = _norm(case[4][1:])
            st, v, pdc = run_op(w, copy.deepcopy(cache), pr, pol)
            check_result(w, m, pr, pol, st, v, pdc, case, acc, tag="conc.probe.")


def calibrate() -> None:
    from mc.runner import HarnessError

    try:
        cms.calibrate()
    except AssertionError as e:
        raise HarnessError(f"calibration failed: {e!r}") from e


def finish(tier, seed, merged) -> None:
    from mc.runner import Vacuous

    if merged.violation_count:
        return
    if len(merged.sets.get("orders", ())) < 4:
        raise Vacuous(f"only {len(merged.sets.get('orders', ()))} distinct start/completion orders were realised")
    if not merged.outcomes.get("covered:no-rpc") or not merged.outcomes.get("uncovered:rpc"):
        raise Vacuous("both covered (no RPC) and uncovered (RPC) calls must occur")
