"""C02 — derived group keys equal the MS-GKDI chain from any covering seed; otherwise an error."""
from __future__ import annotations

import typing as t
import uuid

from env import seams
from mc import budget
from ref import dtyp, gkdi

ID = "C02"
LEVEL = "exploration"
RULE = (
    "complete enumeration of (envelope position (L1',L2'), requested position (L1,L2)) x every envelope shape MS-GKDI 2.2.4 allows at (L1',L2') "
    "(L2'=31: L1 key for L1' with the L2 key present/absent; L2'<31: L1 key for L1'-1, absent at L1'=0, plus the L2 key). quick: boundary "
    "sub-lattice {0,1,2,15,16,29,30,31}^4 x 4 hashes x 2 (root key, SD, L0) incl. L0=0 and 2^31-1; thorough: the full 32^2 x 32^2 lattice (SHA512) "
    "plus the quick set. Observation: GroupKeyEnvelope.get_kek(KeyIdentifier) in nonce mode and compute_l2_key. Covered pair: KEK must equal the reference chain from the root key; "
    "non-covered pair: must raise within 80 KDF calls / 5 s CPU. A second harness goes through the public API on the sub-lattice: a KeyCache primed by one unprotect via the reference DC (policies: exact position, (L1',31), latest of the L0) then offline unprotect of a reference-encrypted blob at (L1,L2): covered => plaintext, not covered => the library tries the network. Every (shape, request) pair is distinct by construction; non-trivial = the real derivation was entered."
    ' Also one root key id that successively holds 8 different key values in throw-away caches with throw-away key objects (object addresses reused).'
    ' Also protects on the long-lived cache while the clock steps backwards and forwards across L2 / L1 / L0 boundaries (9 positions, sync and async), and while it advances between two reads inside one call (4 boundaries x 9 starts x 3 step sizes x sync/async).'
)
ASSUME = ["ref/gkdi.Chain calibrated on the 16 Windows vectors (position (17,13))", "KBKDFHMAC.derive is the library's only KDF primitive (call counter)"]
BOUND = {"quick": "8^4 boundary sub-lattice x shapes x 4 hashes x 2 key sets", "thorough": "full 32^4 lattice x shapes (SHA512) + quick set"}
SUB = [0, 1, 2, 15, 16, 29, 30, 31]
HASHES = ["SHA512", "SHA256", "SHA384", "SHA1"]
KDF_CAP = 80


def shards(tier: str, seed: int):
    out = []
    for ks in (0, 1):
        for part in range(4):
            out.append(["sub", ks, part])  # every shard walks all 4 hashes with the same root key / SD / L0 (state must not leak between hashes)
    if tier == "thorough":
        for l1e in range(32):
            out.append(["full", l1e])
    for part in range(4):
        out.append(["rootcache", part])
    for flag in ("-O", "-OO"):
        out.append(["interp", flag])
    for cover in ("exact", "l1end", "later", "l1end/noL2", "exact/noL2"):  # noL2: the DC omits the L2 key field when L2' = 31 (allowed shape)
        for part in range(4):
            out.append(["api", cover, part])
    return out


def keyset(seed: int, ks: int, h: str):
    d = seams.Drbg(("C02", seed, ks))
    rk = gkdi.RootKey(d.uuid(), d.bytes(64 if ks == 0 else 32), h)
    sid = dtyp.Sid(1, 5, (21, d.int(2**32), d.int(2**32), 1000 + ks) if ks == 0 else (18,))
    sd = dtyp.target_sd(sid)
    l0 = [0, 2**31 - 1][ks] if seed % 2 == 0 else [2**31 - 1, 361][ks]
    return rk, sd, l0


def shapes(ch: gkdi.Chain, l1e: int, l2e: int):
    if l2e == 31:
        yield "l2-present", ch.l1(l1e), ch.l2(l1e, 31)
        yield "l2-absent", ch.l1(l1e), b""
    else:
        yield "std", (ch.l1(l1e - 1) if l1e > 0 else b""), ch.l2(l1e, l2e)


def mk_env(G, rk: gkdi.RootKey, l0: int, l1e: int, l2e: int, l1k: bytes, l2k: bytes):
    return G.GroupKeyEnvelope(
        version=1, flags=2, l0=l0, l1=l1e, l2=l2e, root_key_identifier=rk.rkid, kdf_algorithm="SP800_108_CTR_HMAC",
        kdf_parameters=gkdi.pack_kdf_params(rk.hash_name), secret_algorithm="DH", secret_parameters=rk.params(),
        private_key_length=512, public_key_length=2048, domain_name="", forest_name="", l1_key=l1k, l2_key=l2k,
    )


NONCE = bytes(range(32))


def one(G, Bm, env, rk, ch, l0, l1e, l2e, shape, l1, l2, acc, via: str = "get_kek") -> None:
    kid = Bm.KeyIdentifier(version=1, flags=0, l0=l0, l1=l1, l2=l2, root_key_identifier=rk.rkid, key_info=NONCE, domain_name="", forest_name="")
    covered = (l1e, l2e) >= (l1, l2)
    with budget.cpu_guard(5.0):
        try:
            st, val, kdfs = budget.kdf_guarded(KDF_CAP, env.get_kek, kid)
        except budget.BudgetExceeded as e:  # CPU backstop fired outside kdf_guarded's try
            st, val, kdfs = "budget", e, -1
    case = ["pair", rk.hash_name, l0, l1e, l2e, shape, l1, l2]
    if covered:
        if st == "ok":
            exp = gkdi.kek_nonce(rk.hash_name, ch.l2(l1, l2), NONCE)
            if val != exp:
                acc.violate("covered.wrong-key", case, {"got": val.hex(), "expected": exp.hex()}, size=l1e + l2e + l1 + l2)
            else:
                acc.stat_max("kdf_calls_covered", kdfs)
        elif st == "budget":
            acc.violate("covered.no-termination", case, {"err": repr(val), "kdf_calls": kdfs}, size=l1e + l2e + l1 + l2)
        else:
            acc.violate(f"covered.exc.{type(val).__name__}", case, {"exc": repr(val)}, size=l1e + l2e + l1 + l2)
    else:
        if st == "ok":
            acc.violate("uncovered.returned-key", case, {"got": val.hex()}, size=l1e + l2e + l1 + l2)
        elif st == "budget":
            acc.violate("uncovered.no-termination", case, {"err": repr(val), "kdf_calls": kdfs}, size=l1e + l2e + l1 + l2)
        else:
            acc.stat_add("uncovered_rejected")


def sweep(acc, rk, sd, l0, env_positions, req_positions) -> None:
    import dpapi_ng._blob as Bm
    import dpapi_ng._gkdi as G

    ch = gkdi.Chain(rk.hash_name, rk.key, rk.rkid, sd, l0)
    n = 0
    cov = 0
    for l1e, l2e in env_positions:
        for shape, l1k, l2k in shapes(ch, l1e, l2e):
            env = mk_env(G, rk, l0, l1e, l2e, l1k, l2k)
            for l1, l2 in req_positions:
                one(G, Bm, env, rk, ch, l0, l1e, l2e, shape, l1, l2, acc)
                n += 1
                cov += (l1e, l2e) >= (l1, l2)
    acc.ev(n)
    acc.nt_counted(n)
    acc.outcome("covered-pairs", cov)
    acc.outcome("uncovered-pairs", n - cov)


PT = b"c02-api"
API_SID = "S-1-5-21-7-8-9-1107"


def api_shard(acc, seed: int, cover: str, part: int) -> None:
    """through the public API: a cache primed by one unprotect via the reference DC (which answers with the envelope for
    (L1',L2') under policy `cover`), then the DC is removed and a reference-encrypted blob at (L1,L2) is unprotected."""
    import copy

    import dpapi_ng

    from env import refdc, secctx, transport
    from ref import cms

    seams.block_network()
    d = seams.Drbg(("C02api", seed))
    rk = seams.make_root(d, ["SHA256", "SHA512", "SHA1", "SHA384"][part])
    l0 = 360
    blobs = {}
    for l1, l2 in [(a, b) for a in SUB for b in SUB]:
        blobs[(l1, l2)] = cms.ref_encrypt(rk, API_SID, PT, (l0, l1, l2), cek=d.bytes(32), gcm_nonce_=d.bytes(12), key_nonce=d.bytes(32))
    n = 0
    for l1e, l2e in [(a, b) for a in SUB for b in SUB]:
      for prime in (("unprotect", "protect-twice") if cover.startswith("exact") else ("unprotect",)):
        cache = dpapi_ng.KeyCache()
        if prime == "unprotect":
            dc = refdc.DC([rk], now=(361, 0, 0), cover=cover.split("/")[0])
            dc.l2_at_31 = "/noL2" not in cover
            with transport.network(dc), secctx.scripted_client(lambda u, p, **kw: secctx.ScriptedContext([b"C1"], 16)):
                try:
                    got = dpapi_ng.ncrypt_unprotect_secret(blobs[(l1e, l2e)], server="dc", username="u", password="p", auth_protocol="ntlm", cache=cache)
                except Exception as e:  # noqa: BLE001
                    acc.violate("api.prime.exc", ["api", cover, part, l1e, l2e], {"exc": repr(e)})
                    continue
            if bytes(got) != PT:
                acc.violate("api.prime", ["api", cover, part, l1e, l2e], {"got": repr(bytes(got))})
                continue
        else:
            # the cache is filled by a protect through the DC whose "now" is (l1e, l2e), followed by a second protect that hits the cache
            dc = refdc.DC([rk], now=(l0, l1e, l2e), cover=cover.split("/")[0])
            dc.l2_at_31 = "/noL2" not in cover
            ft = l0 * 1024 * gkdi.B + l1e * 32 * gkdi.B + l2e * gkdi.B + 99
            bad = None
            with seams.clock(ft), transport.network(dc), secctx.scripted_client(lambda u, p, **kw: secctx.ScriptedContext([b"C1"], 16)):
                for rep in (0, 1):
                    try:
                        pb = dpapi_ng.ncrypt_protect_secret(PT, API_SID, root_key_identifier=rk.rkid, server="dc", username="u", password="p", auth_protocol="ntlm", cache=cache)
                        if cms.ref_decrypt(rk, bytes(pb)) != PT:
                            bad = "protect output not decryptable by the reference"
                    except Exception as e:  # noqa: BLE001
                        bad = repr(e)
            if bad or len(dc.getkey_calls) != 1:
                acc.violate("api.prime-by-protect", ["api", cover, part, l1e, l2e, "protect-twice"], {"problem": bad, "getkey_calls": len(dc.getkey_calls)})
                continue
        have = dc.returned[-1][2][1:]
        for (l1, l2), blob in blobs.items():
            c2 = copy.deepcopy(cache)
            case = ["api", cover, part, l1e, l2e, l1, l2, prime]
            st, v, kdfs = budget.kdf_guarded(KDF_CAP, lambda: seams.outcome_of(lambda: dpapi_ng.ncrypt_unprotect_secret(blob, cache=c2)))
            n += 1
            if st == "budget":
                acc.violate("api.no-termination", case, {"detail": repr(v)}, size=l1e + l2e + l1 + l2)
                continue
            kind, val = v
            covered = have >= (l1, l2)
            if covered:
                if kind != "ok" or bytes(val) != PT:
                    acc.violate("api.covered.failed", case, {"outcome": kind, "value": repr(val)[:120], "cached_position": have}, size=l1e + l2e + l1 + l2)
                acc.outcome("api-covered")
            else:
                if kind != "net":
                    acc.violate("api.uncovered.no-network-attempt", case, {"outcome": kind, "value": repr(val)[:120], "cached_position": have}, size=l1e + l2e + l1 + l2)
                acc.outcome("api-uncovered")
    acc.ev(n)
    acc.nt_counted(n)
    acc.sample({"api": "cache primed via reference DC", "cover_policy": cover, "hash": rk.hash_name})


def rootcache_shard(acc, seed: int, part: int) -> None:
    """one KeyCache with the root key loaded, shared by blobs of 2 SIDs x 2 L0 values in an interleaved order"""
    import dpapi_ng

    from ref import cms

    seams.block_network()
    d = seams.Drbg(("C02root", seed, part))
    rk = seams.make_root(d, ["SHA256", "SHA512", "SHA1", "SHA384"][part])
    sids = ["S-1-5-21-7-8-9-1107", "S-1-5-21-7-8-9-1108"]
    triples = [(sids[0], 360), (sids[0], 360), (sids[1], 360), (sids[1], 360), (sids[0], 361), (sids[1], 361), (sids[0], 360), (sids[1], 360), (sids[0], 361)]
    cache = seams.make_cache(rk)
    n = 0
    for rnd, (l1, l2) in enumerate([(a, b) for a in SUB for b in SUB]):
        order = triples[rnd % 3 :] + triples[: rnd % 3]
        for sid, l0 in order:
            blob = cms.ref_encrypt(rk, sid, PT, (l0, l1, l2), cek=d.bytes(32), gcm_nonce_=d.bytes(12), key_nonce=d.bytes(32))
            kind, val = seams.outcome_of(lambda: dpapi_ng.ncrypt_unprotect_secret(blob, cache=cache))
            n += 1
            if kind != "ok" or bytes(val) != PT:
                acc.violate("rootcache.failed", ["rootcache", part, rnd, sid, l0, l1, l2], {"outcome": kind, "value": repr(val)[:120]}, size=rnd)
            # and protect through the same cache: the reference decryptor must open it
            if rnd % 8 == 0:
                kind, val = seams.outcome_of(lambda: dpapi_ng.ncrypt_protect_secret(PT, sid, root_key_identifier=rk.rkid, cache=cache))
                n += 1
                try:
                    okp = kind == "ok" and cms.ref_decrypt(rk, bytes(val)) == PT
                except Exception:  # noqa: BLE001
                    okp = False
                if not okp:
                    acc.violate("rootcache.protect", ["rootcache-protect", part, rnd, sid], {"outcome": kind}, size=rnd)
    # protect on the long-lived cache while the clock steps BACKWARDS (and forwards again) across L2 / L1 / L0 boundaries: each blob is made
    # with the key of the interval it names (the reference decryptor opens it)
    for api_ in ("sync", "async"):
        for li, pos in enumerate([(360, 7, 3), (360, 5, 9), (360, 5, 8), (360, 4, 31), (360, 0, 0), (359, 31, 31), (360, 4, 31), (361, 0, 0), (360, 31, 31)]):
            ft_ = ((pos[0] * 1024) + pos[1] * 32 + pos[2]) * gkdi.B + 7

            def _prot(api_=api_):
                with seams.clock(ft_):
                    if api_ == "sync":
                        return dpapi_ng.ncrypt_protect_secret(PT, sids[0], root_key_identifier=rk.rkid, cache=cache)
                    from mc import vloop

                    return vloop.run(dpapi_ng.async_ncrypt_protect_secret(PT, sids[0], root_key_identifier=rk.rkid, cache=cache))

            kind, val = seams.outcome_of(_prot)
            n += 1
            try:
                okp = kind == "ok" and cms.ref_decrypt(rk, bytes(val)) == PT
                kid_ = gkdi.unpack_keyid(cms.decode(bytes(val)).keyid) if kind == "ok" else None
                okp = okp and (kid_.l0, kid_.l1, kid_.l2) == pos
            except Exception:  # noqa: BLE001
                okp = False
            if not okp:
                acc.violate("rootcache.protect-clock-steps", ["rootcache", part, "clock-steps", api_, li, list(pos)], {"outcome": kind, "value": repr(val)[:80]})
    # ... and while the clock ADVANCES between two reads inside one call (start -6..+2 ticks around an L0 / L1 / L2 boundary, +1..3 ticks per
    # read): whichever instant the call labels the blob with, the key inside is the key of that label (the reference decryptor opens it)
    for api_ in ("sync", "async"):
        for bpos in ((361, 0, 0), (360, 7, 0), (360, 7, 9), (512, 0, 0)):
            base_ = ((bpos[0] * 1024) + bpos[1] * 32 + bpos[2]) * gkdi.B
            for start_ in range(-6, 3):
                for step_ in (1, 2, 3):

                    def _prot2(api_=api_, t0=base_ + start_, step_=step_):
                        with seams.ticking_clock(t0, step_):
                            if api_ == "sync":
                                return dpapi_ng.ncrypt_protect_secret(PT, sids[0], root_key_identifier=rk.rkid, cache=cache)
                            from mc import vloop

                            return vloop.run(dpapi_ng.async_ncrypt_protect_secret(PT, sids[0], root_key_identifier=rk.rkid, cache=cache))

                    kind, val = seams.outcome_of(_prot2)
                    n += 1
                    try:
                        okp = kind == "ok" and cms.ref_decrypt(rk, bytes(val)) == PT
                    except Exception:  # noqa: BLE001
                        okp = False
                    if not okp:
                        acc.violate("rootcache.protect-clock-ticks", ["rootcache", part, "clock-ticks", api_, list(bpos), start_, step_], {"outcome": kind, "value": repr(val)[:80]})
    # root key BYTES with special octets at either end (ASCII white space, NUL, 0xFF, quote): the key is binary, nothing may be trimmed
    for edge in (b" ", b"\n", b"\t\r", b"\x00", b"\xff", b"\x0b\x0c", b"'", b"="):
        for where in ("head", "tail", "both"):
            kb = bytearray(d.bytes(64))
            if where in ("head", "both"):
                kb[: len(edge)] = edge
            if where in ("tail", "both"):
                kb[-len(edge) :] = edge
            rk2 = rk._replace(key=bytes(kb), rkid=d.uuid())
            blob = cms.ref_encrypt(rk2, sids[0], PT, (360, 3, 5), cek=d.bytes(32), gcm_nonce_=d.bytes(12), key_nonce=d.bytes(32))
            kind, val = seams.outcome_of(lambda: dpapi_ng.ncrypt_unprotect_secret(blob, cache=seams.make_cache(rk2)))
            n += 1
            if kind != "ok" or bytes(val) != PT:
                acc.violate("rootcache.edge-octets", ["rootcache", part, "edge", edge.hex(), where], {"outcome": kind, "value": repr(val)[:120]})
    # the root key handed to load_key as bytearray / memoryview (accepted types), and left untouched by it
    for form in (bytearray, memoryview, lambda b_: memoryview(bytearray(b_))):
        kb2 = d.bytes(64)
        rk3 = rk._replace(key=kb2, rkid=d.uuid())
        arg = form(kb2)
        blob = cms.ref_encrypt(rk3, sids[1], PT, (361, 7, 9), cek=d.bytes(32), gcm_nonce_=d.bytes(12), key_nonce=d.bytes(32))
        c3 = dpapi_ng.KeyCache()

        def _load_and_open():
            c3.load_key(key=arg, root_key_id=rk3.rkid, version=1, kdf_algorithm="SP800_108_CTR_HMAC", kdf_parameters=gkdi.pack_kdf_params(rk3.hash_name), secret_algorithm="DH", secret_parameters=bytearray(rk3.params()), private_key_length=512, public_key_length=2048)
            return dpapi_ng.ncrypt_unprotect_secret(blob, cache=c3)

        kind, val = seams.outcome_of(_load_and_open)
        n += 1
        if kind != "ok" or bytes(val) != PT or bytes(arg) != kb2:
            acc.violate("rootcache.key-argument-form", ["rootcache", part, "form", getattr(form, "__name__", "memoryview-of-bytearray")], {"outcome": kind, "value": repr(val)[:120], "argument_unchanged": bytes(arg) == kb2})
    # one root key ID that successively holds DIFFERENT key values (a wrong key corrected, a restored backup, a test suite) in throw-away
    # caches with throw-away key objects (so that object addresses are reused): a fresh cache depends on nothing but what was loaded into it.
    # (Re-loading another value into a cache that has already derived seed keys from the old one is NOT demanded: a root key id names one
    # value for ever, and the unchanged library keeps the seed keys it derived - tried, and dropped as more than the property states.)
    def _load(c_, rk_, keyobj):
        c_.load_key(key=keyobj, root_key_id=rk_.rkid, version=1, kdf_algorithm="SP800_108_CTR_HMAC", kdf_parameters=gkdi.pack_kdf_params(rk_.hash_name), secret_algorithm="DH", secret_parameters=rk_.params(), private_key_length=512, public_key_length=2048)

    same_id = d.uuid()
    prepared = []
    for i in range(8):
        rk4 = rk._replace(key=d.bytes(64), rkid=same_id)
        prepared.append((rk4, cms.ref_encrypt(rk4, sids[0], PT, (360, 3 + i % 2, 5), cek=d.bytes(32), gcm_nonce_=d.bytes(12), key_nonce=d.bytes(32))))
    addresses = []
    for i, (rk4, blob) in enumerate(prepared):
        c_ = dpapi_ng.KeyCache()
        k_ = bytes(bytearray(rk4.key))  # a transient object, freed together with the cache at the end of this round
        addresses.append(id(k_))
        _load(c_, rk4, k_)
        kind, val = seams.outcome_of(lambda: dpapi_ng.ncrypt_unprotect_secret(blob, cache=c_))
        n += 1
        if kind != "ok" or bytes(val) != PT:
            acc.violate("rootcache.rekeyed", ["rootcache", part, "rekey", i], {"outcome": kind, "value": repr(val)[:120], "key object address reused": addresses.count(id(k_)) > 1})
        del c_, k_
    acc.stat_max("rekey_rounds_with_reused_key_object_address", len(addresses) - len(set(addresses)))
    acc.ev(n)
    acc.nt_counted(n)
    acc.outcome("rootcache-ok", n)
    acc.sample({"shared root-key cache": "2 SIDs x 2 L0 interleaved", "hash": rk.hash_name})


def interp_child(seed: int) -> None:
    """runs in a child interpreter started with -O / -OO (asserts compiled out, docstrings dropped): the boundary sub-lattice for one hash"""
    import json as _json

    from mc.runner import Acc

    acc = Acc()
    seams.block_network()
    pos = [(a, b) for a in SUB for b in SUB]
    rk, sd, l0 = keyset(seed, 0, "SHA256")
    sweep(acc, rk, sd, l0, pos, pos)
    out = [[k, e["case"], e["detail"]] for k, lst in acc.violations.items() for e in lst[:3]]
    print("CHILDRESULT " + _json.dumps({"evaluations": acc.evaluations, "violations": out, "count": acc.violation_count}, default=str))


def run_interp(seed: int, flag: str):
    import json as _json
    import os
    import subprocess
    import sys

    from mc.runner import TARGET, VERIF

    env = dict(os.environ, PYTHONHASHSEED="0", PYTHONDONTWRITEBYTECODE="1")
    env.pop("PYTHONOPTIMIZE", None)
    code = f"import sys; sys.path[:0] = [{TARGET!r}, {VERIF!r}]; from checks import c02; c02.interp_child({seed})"
    from mc import budget as _b

    with _b.idle_ok():
        r = subprocess.run([sys.executable, flag, "-c", code], env=env, capture_output=True, text=True, timeout=900)
    line = next((ln for ln in r.stdout.splitlines() if ln.startswith("CHILDRESULT ")), None)
    if line is None:
        raise RuntimeError(f"child interpreter {flag} failed: {r.stderr[-400:]}")
    return _json.loads(line[len("CHILDRESULT "):])


def run_shard(shard, tier, seed, acc) -> None:
    if shard[0] == "interp":
        # the interpreter's optimisation level is part of the environment: the same sub-lattice under python -O / -OO
        res = run_interp(seed, shard[1])
        acc.ev(res["evaluations"])
        acc.nt_counted(res["evaluations"])
        for key, case, det in res["violations"]:
            acc.violate(f"interp{shard[1]}." + key, ["interp", shard[1], case], det)
        acc.outcome(f"interp{shard[1]}:" + ("viol" if res["count"] else "ok"))
        acc.sample({"child interpreter": "python " + shard[1], "pairs": res["evaluations"]})
        return
    if shard[0] == "rootcache":
        rootcache_shard(acc, seed, shard[1])
        return
    if shard[0] == "api":
        api_shard(acc, seed, shard[1], shard[2])
        return
    if shard[0] == "sub":
        _, ks, part = shard
        pos = [(a, b) for a in SUB for b in SUB]
        mine = [p_ for i, p_ in enumerate(pos) if i % 4 == part]
        for rnd in range(2):
            for h in (HASHES if rnd == 0 else HASHES[::-1]):
                rk, sd, l0 = keyset(seed, ks, h)
                sweep(acc, rk, sd, l0, mine[rnd::2], pos)
        acc.sample({"hashes": HASHES, "L0": l0, "envelope": [30, 31, "l2-absent"], "request": [29, 31], "covered": True})
    else:
        _, l1e = shard
        rk, sd, l0 = keyset(seed, 0, "SHA512")
        sweep(acc, rk, sd, 361, [(l1e, b) for b in range(32)], [(a, b) for a in range(32) for b in range(32)])
        acc.sample({"hash": "SHA512", "L0": 361, "envelope_L1": l1e, "requests": "all 1024"})


def replay(case, seed, acc) -> None:
    if case[0] == "interp":
        acc.ev()
        for key, c_, det in run_interp(seed, case[1])["violations"]:
            if c_ == case[2]:
                acc.violate(f"interp{case[1]}." + key, case, det)
        return
    if case[0] in ("rootcache", "rootcache-protect"):
        rootcache_shard(acc, seed, case[1])
        for k in list(acc.violations):
            acc.violations[k] = [e for e in acc.violations[k] if e["case"] == case]
            if not acc.violations[k]:
                del acc.violations[k]
        acc.violation_count = sum(len(v) for v in acc.violations.values())
        return
    if case[0] == "api":
        api_shard(acc, seed, case[1], case[2])
        for k in list(acc.violations):
            acc.violations[k] = [e for e in acc.violations[k] if e["case"] == case]
            if not acc.violations[k]:
                del acc.violations[k]
        acc.violation_count = sum(len(v) for v in acc.violations.values())
        return
    import dpapi_ng._blob as Bm
    import dpapi_ng._gkdi as G

    _, h, l0, l1e, l2e, shape, l1, l2 = case
    for ks in (0, 1):
        rk, sd, kl0 = keyset(seed, ks, h)
        if kl0 == l0 or (l0 == 361 and ks == 0):
            break
    ch = gkdi.Chain(rk.hash_name, rk.key, rk.rkid, sd, l0)
    for sh, l1k, l2k in shapes(ch, l1e, l2e):
        if sh == shape:
            one(G, Bm, mk_env(G, rk, l0, l1e, l2e, l1k, l2k), rk, ch, l0, l1e, l2e, shape, l1, l2, acc)
            acc.ev()


def calibrate() -> None:
    from mc.runner import HarnessError
    from ref import cms

    try:
        cms.calibrate()
    except AssertionError as e:
        raise HarnessError(f"reference model calibration failed: {e!r}") from e


def finish(tier, seed, merged) -> None:
    from mc.runner import Vacuous

    if not merged.outcomes.get("covered-pairs") or not merged.outcomes.get("uncovered-pairs"):
        raise Vacuous("C02 needs both covered and uncovered pairs")
