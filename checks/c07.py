"""C07 — ASN.1 DER primitives: minimal encoding, exact decoding, exact consumption.

Exhaustive product enumeration against ref/der.py (independent strict DER).
"""
from __future__ import annotations

import itertools
import typing as t

from ref import der

ID = "C07"
LEVEL = "exploration"
RULE = (
    "complete enumeration of: every INTEGER of <=2 (quick) / <=3 (thorough) content octets written and read back, "
    "+-2^k(+-1) for k<=4096; ENUMERATED <=2 octets; BOOLEAN; OIDs first arc 0..2 x second 0..39 x 0..3 further arcs over a "
    "12-value boundary alphabet; octet/UTF-8/time strings at every listed content length; tags class x constructed x number; "
    "all value trees of depth<=3 fan-out<=2; all concatenations of <=3 values from a 12-value alphabet; all sequences of <=6 (quick) / <=8 (thorough) reader cursor operations {peek, peek+skip, read, peek+read(header=), get_remaining_data} on one reader over 6 concatenated values, against an index as reference model. "
    "Each case: writer bytes == independent DER encoder, reader value == original, reader leaves exactly the suffix. "
    "Every enumerated value is distinct by construction; all are non-trivial (each executes writer and reader)."
    ' Also every operation sequence of length <= 6 (thorough 7) on ASN1Writer objects over {open SEQUENCE / SET under any open writer (<= 3 children), write the next integer to any open writer, close any open child}, compared with a reference model of the writer (a child becomes one TLV of its parent at the moment it is closed).'
    ' Also octet strings whose content is itself DER under 7 kinds of tag (primitive / constructed, universal / context / application).'
)
ASSUME = ["ref/der.py is a correct strict DER codec (self-checked on X.690 worked examples and the 17 Windows blobs)"]
BOUND = {
    "quick": "ints of <=2 content octets (65,536) + powers; OIDs <=2 extra arcs; lengths <= 65,537; trees over 3 leaves",
    "thorough": "ints of <=3 content octets (16,777,216) + powers; OIDs <=3 extra arcs; lengths <= 2^24+1; trees over 6 leaves",
}

SUFFIX = b"\x05\x00\xa5"
ARC_ALPHA = [0, 1, 127, 128, 16383, 16384, 2**21 - 1, 2**21, 2**28, 2**32, 2**64, 2**70]
LEN_Q = [0, 1, 126, 127, 128, 129, 255, 256, 257, 65535, 65536, 65537]
LEN_T = LEN_Q + [2**24 - 1, 2**24, 2**24 + 1]
TAG_NUMS = list(range(0, 41)) + [127, 128, 16383, 16384, 2**21, 2**28, 2**32]


def _mods():
    import dpapi_ng._asn1 as a

    return a


def shards(tier: str, seed: int):
    out: t.List[t.Any] = []
    if tier == "quick":
        for lo in range(-32768, 32768, 8192):
            out.append(["int", lo, lo + 8192])
    else:
        for lo in range(-(2**23), 2**23, 2**16):
            out.append(["int", lo, lo + 2**16])
    out.append(["pow"])
    out.append(["enum"])
    out.append(["bool"])
    for first in (0, 1, 2):
        for s0 in range(0, 40, 10):
            out.append(["oid", first, s0, s0 + 10, 2 if tier == "quick" else 3])
    out.append(["oid2x"])
    out.append(["str"])
    out.append(["tag"])
    out.append(["buffers"])
    for k in range(3):
        out.append(["tree", k])
    out.append(["concat"])
    out.append(["hdr"])
    for part in range(4):
        out.append(["readerops", part])
    out.append(["writerops", 6 if tier == "quick" else 7])
    return out


# --------------------------------------------------------------------------------------
# single-case executors: each returns None or (key, detail)


def case_int(a, v: int, kind: str = "int"):
    exp = der.enc_int(v, 2 if kind == "int" else 10)
    w = a.ASN1Writer()
    try:
        (w.write_integer if kind == "int" else w.write_enumerated)(v)
        got = bytes(w.get_data())
    except Exception as e:  # noqa: BLE001
        return f"{kind}.write.exc.{type(e).__name__}", {"value": str(v), "exc": repr(e)}
    if got != exp:
        return f"{kind}.write.bytes", {"value": str(v), "got": got.hex()[:80], "expected": exp.hex()[:80]}
    r = a.ASN1Reader(exp + SUFFIX)
    try:
        if (v & 7) == 5:  # a share of the values goes through the peek_header fast path
            val = r.read_integer(header=r.peek_header()) if kind == "int" else r.read_enumerated(int, header=r.peek_header())
        else:
            val = r.read_integer() if kind == "int" else r.read_enumerated(int)
        rest = r.get_remaining_data()
    except Exception as e:  # noqa: BLE001
        return f"{kind}.read.exc.{type(e).__name__}", {"value": str(v), "der": exp.hex()[:80], "exc": repr(e)}
    if val != v:
        return f"{kind}.read.value", {"value": str(v), "der": exp.hex()[:80], "got": str(val)}
    if rest != SUFFIX:
        return f"{kind}.read.consumed", {"value": str(v), "rest": rest.hex()}
    return None


def case_oid(a, arcs: t.Sequence[int]):
    dotted = ".".join(str(x) for x in arcs)
    exp = der.tlv(0, False, 6, der.oid_content(arcs))
    lenient = arcs[0] == 2 and arcs[1] > 39
    w = a.ASN1Writer()
    try:
        w.write_object_identifier(dotted)
        got = bytes(w.get_data())
    except ValueError as e:
        if lenient:
            return None
        return "oid.write.exc.ValueError", {"oid": dotted, "exc": repr(e)}
    except Exception as e:  # noqa: BLE001
        return f"oid.write.exc.{type(e).__name__}", {"oid": dotted, "exc": repr(e)}
    if got != exp:
        return "oid.write.bytes", {"oid": dotted, "got": got.hex(), "expected": exp.hex()}
    if lenient:
        return None
    r = a.ASN1Reader(exp + SUFFIX)
    try:
        val = r.read_object_identifier()
        rest = r.get_remaining_data()
    except Exception as e:  # noqa: BLE001
        return f"oid.read.exc.{type(e).__name__}", {"oid": dotted, "exc": repr(e)}
    if val != dotted:
        return "oid.read.value", {"oid": dotted, "got": val}
    if rest != SUFFIX:
        return "oid.read.consumed", {"oid": dotted, "rest": rest.hex()}
    return None


def _tag(a, cls: int, constructed: bool, number: int):
    return a.ASN1Tag(tag_class=a.TagClass(cls), tag_number=number, is_constructed=constructed)


def case_str(a, kind: str, n: int, fill: int):
    if kind == "octet":
        val: t.Any = bytes([(fill + i) & 0xFF for i in range(min(n, 300))]) + b"\x00" * max(0, n - 300)
        content = val
        num = 4
        wr, rd = "write_octet_string", "read_octet_string"
    elif kind == "utf8":
        # n content octets made of 1-,2-,3- and 4-byte characters
        units = ["a", "é", "€", "\U0001d521"]
        s = []
        left = n
        i = fill
        while left:
            u = units[i % 4]
            i += 1
            ln = len(u.encode())
            if ln > left:
                u = "a"
                ln = 1
            s.append(u)
            left -= ln
        val = "".join(s)
        content = val.encode("utf-8")
        num = 12
        wr, rd = "write_utf8_string", "read_utf8_string"
    else:
        val = ("20230" + "9" * n)[:n] if n else ""
        content = val.encode()
        num = 24
        wr, rd = "write_generalized_time", "read_generalized_time"
    assert len(content) == n
    exp = der.tlv(0, False, num, content)
    w = a.ASN1Writer()
    try:
        getattr(w, wr)(val)
        got = bytes(w.get_data())
    except Exception as e:  # noqa: BLE001
        return f"{kind}.write.exc.{type(e).__name__}", {"len": n, "exc": repr(e)}
    if got != exp:
        return f"{kind}.write.bytes", {"len": n, "got_head": got[:12].hex(), "expected_head": exp[:12].hex()}
    if kind == "octet" and n <= 70000:
        # the value handed over as bytes / bytearray / memoryview, the SAME object written twice (top level, then nested): identical
        # output each time and the caller's buffer untouched; a writer's get_data() taken before a later write stays what it was
        for form in (bytes, bytearray, memoryview):
            arg = form(val)
            try:
                w1 = a.ASN1Writer()
                w1.write_octet_string(arg)
                first = w1.get_data()
                snap = bytes(first)
                w2 = a.ASN1Writer()
                with w2.push_sequence() as sq:
                    with sq.push_set() as st_:
                        st_.write_octet_string(arg, _tag(a, 2, False, 0))
                        st_.write_octet_string(arg)
                nested = bytes(w2.get_data())
            except Exception as e:  # noqa: BLE001
                return f"octet.write.{form.__name__}.exc.{type(e).__name__}", {"len": n, "exc": repr(e)}
            if bytes(arg) != val:
                return f"octet.write.{form.__name__}.argument-mutated", {"len": n, "now_len": len(bytes(arg))}
            exp_nested = der.enc_seq(der.enc_set(der.tlv(2, False, 0, content) + exp))
            if snap != exp or bytes(first) != exp or nested != exp_nested:
                return f"octet.write.{form.__name__}.bytes", {"len": n, "top": snap[:12].hex(), "top_later": bytes(first)[:12].hex(), "nested_head": nested[:16].hex(), "expected_nested_head": exp_nested[:16].hex()}
    r = a.ASN1Reader(exp + SUFFIX)
    try:
        hdr = r.peek_header()
        back = getattr(r, rd)()
        rest = r.get_remaining_data()
    except Exception as e:  # noqa: BLE001
        return f"{kind}.read.exc.{type(e).__name__}", {"len": n, "exc": repr(e)}
    if hdr.length != n or hdr.tag_length != len(exp) - n:
        return f"{kind}.read.header", {"len": n, "hdr": repr(hdr)}
    if back != val:
        return f"{kind}.read.value", {"len": n}
    if rest != SUFFIX:
        return f"{kind}.read.consumed", {"len": n, "rest": rest[:16].hex()}
    return None


def case_tag(a, cls: int, constructed: bool, number: int, clen: int, as_enum: bool = False):
    content = bytes(range(clen % 256)) if clen < 256 else b"\x5a" * clen
    exp = der.tlv(cls, constructed, number, content)
    try:
        tag = _tag(a, cls, constructed, number)
        if as_enum:  # the universal type number handed over as the TypeTagNumber member instead of a plain int
            tag = a.ASN1Tag(tag_class=a.TagClass(cls), tag_number=a.TypeTagNumber(number), is_constructed=constructed)
        w = a.ASN1Writer()
        w.write_octet_string(content, tag)
        got = bytes(w.get_data())
    except Exception as e:  # noqa: BLE001
        return f"tag.write.exc.{type(e).__name__}", {"tag": [cls, constructed, number], "exc": repr(e)}
    if got != exp:
        return "tag.write.bytes", {"tag": [cls, constructed, number], "got": got[:12].hex(), "expected": exp[:12].hex()}
    r = a.ASN1Reader(exp + SUFFIX)
    try:
        hdr = r.peek_header()
        back = r.read_octet_string(tag=tag)
        rest = r.get_remaining_data()
    except Exception as e:  # noqa: BLE001
        return f"tag.read.exc.{type(e).__name__}", {"tag": [cls, constructed, number], "exc": repr(e)}
    ht = hdr.tag
    if (int(ht.tag_class), bool(ht.is_constructed), int(ht.tag_number)) != (cls, constructed, number) or hdr.length != clen or hdr.tag_length != len(exp) - clen:
        return "tag.read.header", {"tag": [cls, constructed, number], "hdr": repr(hdr)}
    if back != content or rest != SUFFIX:
        return "tag.read.value", {"tag": [cls, constructed, number]}
    # the same value through the peek_header fast path (header= argument), as the CMS decoder uses it
    try:
        r2 = a.ASN1Reader(exp + SUFFIX)
        h2 = r2.peek_header()
        back2 = r2.read_octet_string(header=h2)
        rest2 = r2.get_remaining_data()
    except Exception as e:  # noqa: BLE001
        return f"tag.read-with-header.exc.{type(e).__name__}", {"tag": [cls, constructed, number], "exc": repr(e)}
    if back2 != content or rest2 != SUFFIX:
        return "tag.read-with-header.value", {"tag": [cls, constructed, number]}
    # a reader expecting another tag must refuse, and the same value under the generic reader w/ header works
    other = _tag(a, cls, constructed, number + 1 if number != 30 else 29)
    try:
        a.ASN1Reader(exp).read_octet_string(tag=other)
        return "tag.read.wrongtag-accepted", {"tag": [cls, constructed, number]}
    except ValueError:
        pass
    except Exception as e:  # noqa: BLE001
        return f"tag.read.wrongtag.exc.{type(e).__name__}", {"tag": [cls, constructed, number], "exc": repr(e)}
    return None


# value trees -----------------------------------------------------------------------------

LEAVES6 = [("int", 0), ("int", -129), ("oct", b""), ("utf", "éx"), ("oid", "1.2.840.113549"), ("bool", True)]
LEAVES3 = [("int", -129), ("oct", b"\x00"), ("oid", "1.2.840.113549")]
KINDS = ["seq", "set", "ctx0", "ctx31"]


def trees(depth: int, leaves, kinds):
    if depth == 0:
        return list(leaves)
    sub = trees(depth - 1, leaves, kinds)
    out = list(leaves)
    for k in kinds:
        out.append((k, ()))
        for x in sub:
            out.append((k, (x,)))
        for x in sub:
            for y in sub:
                out.append((k, (x, y)))
    return out


def ref_enc(tree) -> bytes:
    k, v = tree
    if k == "int":
        return der.enc_int(v)
    if k == "oct":
        return der.enc_octets(v)
    if k == "utf":
        return der.enc_utf8(v)
    if k == "oid":
        return der.enc_oid(v)
    if k == "bool":
        return der.enc_bool(v)
    body = b"".join(ref_enc(c) for c in v)
    if k == "seq":
        return der.tlv(0, True, 16, body)
    if k == "set":
        return der.tlv(0, True, 17, body)
    if k == "ctx0":
        return der.tlv(2, True, 0, body)
    if k == "ctx31":
        return der.tlv(2, True, 31, body)
    raise AssertionError(k)


def impl_write(a, w, tree) -> None:
    k, v = tree
    if k == "int":
        w.write_integer(v)
    elif k == "oct":
        w.write_octet_string(v)
    elif k == "utf":
        w.write_utf8_string(v)
    elif k == "oid":
        w.write_object_identifier(v)
    elif k == "bool":
        w.write_boolean(v)
    else:
        if k == "seq":
            cm = w.push_sequence()
        elif k == "set":
            cm = w.push_set()
        elif k == "ctx0":
            cm = w.push_sequence(tag=_tag(a, 2, True, 0))
        else:
            cm = w.push_set(tag=_tag(a, 2, True, 31))
        with cm as sub:
            for c in v:
                impl_write(a, sub, c)


def impl_read(a, r, tree):
    k, v = tree
    if k == "int":
        return ("int", r.read_integer())
    if k == "oct":
        return ("oct", r.read_octet_string())
    if k == "utf":
        return ("utf", r.read_utf8_string())
    if k == "oid":
        return ("oid", r.read_object_identifier())
    if k == "bool":
        return ("bool", r.read_boolean())
    if k == "seq":
        sub = r.read_sequence()
    elif k == "set":
        sub = r.read_set()
    elif k == "ctx0":
        sub = r.read_sequence(tag=_tag(a, 2, True, 0))
    else:
        sub = r.read_set(tag=_tag(a, 2, True, 31))
    kids = tuple(impl_read(a, sub, c) for c in v)
    if sub:
        raise AssertionError("container not fully consumed")
    return (k, kids)


def case_tree(a, tree):
    exp = ref_enc(tree)
    try:
        w = a.ASN1Writer()
        impl_write(a, w, tree)
        got = bytes(w.get_data())
    except Exception as e:  # noqa: BLE001
        return f"tree.write.exc.{type(e).__name__}", {"tree": repr(tree), "exc": repr(e)}
    if got != exp:
        return "tree.write.bytes", {"tree": repr(tree), "got": got.hex(), "expected": exp.hex()}
    try:
        r = a.ASN1Reader(exp + SUFFIX)
        back = impl_read(a, r, tree)
        rest = r.get_remaining_data()
    except Exception as e:  # noqa: BLE001
        return f"tree.read.exc.{type(e).__name__}", {"tree": repr(tree), "exc": repr(e)}
    if back != tree:
        return "tree.read.value", {"tree": repr(tree), "got": repr(back)}
    if rest != SUFFIX:
        return "tree.read.consumed", {"tree": repr(tree), "rest": rest.hex()}
    return None


CONCAT_ALPHA = [
    ("int", 0),
    ("int", 128),
    ("int", -32769),
    ("oct", b""),
    ("oct", b"\x01" * 127),
    ("oct", b"\x02" * 128),
    ("utf", ""),
    ("utf", "\U0001d521"),
    ("oid", "0.0"),
    ("oid", "1.39.16384"),
    ("bool", False),
    ("seq", (("int", 1),)),
]


def case_concat(a, seq):
    exp = b"".join(ref_enc(x) for x in seq)
    try:
        w = a.ASN1Writer()
        for x in seq:
            impl_write(a, w, x)
        got = bytes(w.get_data())
    except Exception as e:  # noqa: BLE001
        return f"concat.write.exc.{type(e).__name__}", {"seq": repr(seq), "exc": repr(e)}
    if got != exp:
        return "concat.write.bytes", {"seq": repr(seq)}
    try:
        r = a.ASN1Reader(exp)
        back = []
        for x in seq:
            before = len(r._view) if hasattr(r, "_view") else None
            back.append(impl_read(a, r, x))
            if before is not None and before - len(r._view) != len(ref_enc(x)):
                return "concat.read.cursor", {"seq": repr(seq), "at": repr(x)}
        if r:
            return "concat.read.leftover", {"seq": repr(seq)}
    except Exception as e:  # noqa: BLE001
        return f"concat.read.exc.{type(e).__name__}", {"seq": repr(seq), "exc": repr(e)}
    if tuple(back) != tuple(seq):
        return "concat.read.value", {"seq": repr(seq), "got": repr(back)}
    return None


def case_hdr(a, cls, constructed, number, length):
    """peek_header / skip_value on a header whose content is present; then the next value is read"""
    content = b"\x00" * length
    exp = der.tlv(cls, constructed, number, content) + der.enc_int(77)
    try:
        r = a.ASN1Reader(exp)
        h = r.peek_header()
        r.skip_value(h)
        v = r.read_integer()
        empty = not r
    except Exception as e:  # noqa: BLE001
        return f"hdr.exc.{type(e).__name__}", {"tag": [cls, constructed, number], "len": length, "exc": repr(e)}
    if v != 77 or not empty or h.length != length:
        return "hdr.skip", {"tag": [cls, constructed, number], "len": length}
    return None


# reader operation sequences ------------------------------------------------------------------------------

OPS_ELEMS = [("int", 300), ("oct", b"\x01\x02\x03"), ("utf", "hé"), ("seq", (("int", 5),)), ("oid", "1.2.840"), ("oct", b"")]
OPS = "PSRHG"  # peek | peek+skip_value | typed read | peek+read(header=) | get_remaining_data


def case_readerops(a, ops: str):
    """one ASN1Reader over 6 concatenated values driven by a sequence of cursor operations; a plain index is the reference model"""
    encs = [ref_enc(e) for e in OPS_ELEMS]
    data = b"".join(encs)
    r = a.ASN1Reader(data)
    i = 0
    drained = False
    for step, op in enumerate(ops):
        at_end = drained or i >= len(OPS_ELEMS)
        try:
            if op == "G":
                got = r.get_remaining_data()
                exp = b"" if drained else b"".join(encs[i:])
                if got != exp:
                    return "readerops.remaining", {"ops": ops, "step": step, "got": got.hex(), "expected": exp.hex()}
                drained = True
                continue
            if at_end:
                try:
                    r.peek_header() if op in "PSH" else r.read_integer()
                    return "readerops.no-error-at-end", {"ops": ops, "step": step}
                except a.NotEnougData:
                    continue
            node = der.parse_one(encs[i])
            if op in "PSH":
                h = r.peek_header()
                if (int(h.tag.tag_class), bool(h.tag.is_constructed), int(h.tag.tag_number), h.tag_length, h.length) != (node.cls, node.constructed, node.number, node.hdr, len(node.content)):
                    return "readerops.peek", {"ops": ops, "step": step, "element": i, "header": repr(h)}
            if op == "S":
                r.skip_value(h)
                i += 1
            elif op == "R":
                if impl_read(a, r, OPS_ELEMS[i]) != OPS_ELEMS[i]:
                    return "readerops.read", {"ops": ops, "step": step, "element": i}
                i += 1
            elif op == "H":
                k = OPS_ELEMS[i][0]
                fn = {"int": r.read_integer, "oct": r.read_octet_string, "utf": r.read_utf8_string, "oid": r.read_object_identifier}.get(k)
                if fn is None:
                    sub = r.read_sequence(header=h)
                    val = (k, tuple(impl_read(a, sub, c) for c in OPS_ELEMS[i][1]))
                else:
                    val = (k, fn(header=h))
                if val != OPS_ELEMS[i]:
                    return "readerops.read-with-header", {"ops": ops, "step": step, "element": i, "got": repr(val)}
                i += 1
        except Exception as e:  # noqa: BLE001
            return f"readerops.exc.{type(e).__name__}", {"ops": ops, "step": step, "element": i, "exc": repr(e)}
    return None


# --------------------------------------------------------------------------------------


def _report(acc, res, case) -> None:
    if res:
        acc.violate(res[0], case, res[1])
        acc.outcome("violation:" + res[0])
    else:
        acc.outcome("ok")


def pow_values():
    vals = set()
    for k in range(0, 4097):
        for d in (-1, 0, 1):
            vals.add(2**k + d)
            vals.add(-(2**k) + d)
    return sorted(vals)


def writer_history(a, ops):
    """run one operation sequence on real ASN1Writer objects and on the reference model; -> (library bytes | exception text, model bytes)
    model: every writer owns a buffer; closing a child appends ONE TLV holding the child's buffer to its parent's buffer, at that moment"""
    from ref import der

    real = {0: a.ASN1Writer()}
    model = {0: []}
    meta = {}
    nxt = 1
    try:
        for op in ops:
            if op[0] == "open":
                _, par, kind_ = op
                real[nxt] = real[par].push_sequence() if kind_ == "seq" else real[par].push_set()
                real[nxt].__enter__()
                model[nxt] = []
                meta[nxt] = (par, kind_)
                nxt += 1
            elif op[0] == "write":
                real[op[1]].write_integer(op[2])
                model[op[1]].append(der.enc_int(op[2]))
            else:
                real[op[1]].__exit__(None, None, None)
                par, kind_ = meta[op[1]]
                model[par].append((der.enc_seq if kind_ == "seq" else der.enc_set)(*model[op[1]]))
        got = bytes(real[0].get_data())
    except Exception as e:  # noqa: BLE001
        got = f"{type(e).__name__}: {e}"
    return got, b"".join(model[0])


def writer_histories(depth: int):
    """all operation sequences of length <= depth over {open seq/set under any open writer (<= 3 children in all), write the next integer to
    any open writer, close any open child} in which every child is closed at the end and at most once"""

    def rec(ops, open_, made, counter):
        if not open_ - {0} and ops:
            yield list(ops)
        if len(ops) >= depth:
            return
        for w in sorted(open_):
            if made < 3:
                for kind_ in ("seq", "set"):
                    yield from rec(ops + [("open", w, kind_)], open_ | {made + 1}, made + 1, counter)
            yield from rec(ops + [("write", w, counter)], open_, made, counter + 1)
            if w != 0:
                yield from rec(ops + [("close", w)], open_ - {w}, made, counter)

    yield from rec([], {0}, 0, 1)


def run_shard(shard, tier, seed, acc) -> None:
    a = _mods()
    kind = shard[0]
    if kind == "writerops":
        n = nonnested = 0
        for ops in writer_histories(shard[1]):
            got, want = writer_history(a, ops)
            n += 1
            # strictly nested = every close refers to the most recently opened writer that is still open and nothing is written to a writer
            # while one of its children is open
            if got != want:
                acc.violate("writerops.bytes", ["writerops", [list(o) for o in ops]], {"got": got.hex() if isinstance(got, bytes) else got, "model": want.hex()}, size=len(ops))
                acc.outcome("writerops-differ")
            else:
                acc.outcome("writerops-agree")
            acc.set_add("writer_outputs", want)
        acc.ev(n)
        acc.nt_counted(n)
        acc.states += n
        acc.transitions += n * shard[1]
        acc.sample({"writer operation sequences": n, "depth": shard[1], "example": [list(o) for o in ops]})
        return
    if kind == "int":
        lo, hi = shard[1], shard[2]
        bad = 0
        for v in range(lo, hi):
            res = case_int(a, v)
            if res:
                bad += 1
                _report(acc, res, ["int", v])
        acc.ev(hi - lo)
        acc.nt_counted(hi - lo)
        acc.outcome("ok", (hi - lo) - bad)
        acc.sample({"int": lo, "der": der.enc_int(lo).hex()})
    elif kind == "pow":
        vals = pow_values()
        for v in vals:
            _report(acc, case_int(a, v), ["int", str(v)])
        acc.ev(len(vals))
        acc.nt_counted(len(vals))
        acc.sample({"int": "2**4096+1"})
    elif kind == "enum":
        for v in range(-32768, 32768):
            res = case_int(a, v, "enum")
            if res:
                _report(acc, res, ["enum", v])
        acc.ev(65536)
        acc.nt_counted(65536)
        acc.outcome("ok", 65536)
    elif kind == "bool":
        for v in (False, True):
            exp = der.enc_bool(v)
            w = a.ASN1Writer()
            w.write_boolean(v)
            r = a.ASN1Reader(exp + SUFFIX)
            ok = bytes(w.get_data()) == exp and r.read_boolean() is v and r.get_remaining_data() == SUFFIX
            _report(acc, None if ok else ("bool", {"value": v}), ["bool", v])
            acc.ev()
            acc.nt_counted()
    elif kind == "oid":
        _, first, s0, s1, extra = shard
        n = 0
        for second in range(s0, s1):
            for k in range(0, extra + 1):
                for tail in itertools.product(ARC_ALPHA, repeat=k):
                    arcs = [first, second, *tail]
                    res = case_oid(a, arcs)
                    n += 1
                    if res:
                        _report(acc, res, ["oid", [str(x) for x in arcs]])
            if tier == "thorough":
                for i, x in enumerate(ARC_ALPHA):  # boundary diagonal for 4 further arcs
                    arcs = [first, second, x, ARC_ALPHA[(i + 1) % 12], ARC_ALPHA[(i + 5) % 12], ARC_ALPHA[(i + 7) % 12]]
                    res = case_oid(a, arcs)
                    n += 1
                    if res:
                        _report(acc, res, ["oid", [str(x) for x in arcs]])
        acc.ev(n)
        acc.nt_counted(n)
        acc.outcome("ok", n)
        acc.sample({"oid": f"{first}.{s0}.{ARC_ALPHA[-1]}"})
    elif kind == "oid2x":
        for arcs in ([2, 40], [2, 100, 3], [2, 999, 1], [2, 47, 2**64]):
            _report(acc, case_oid(a, arcs), ["oid", arcs])
            acc.ev()
            acc.nt_counted()
    elif kind == "str":
        lens = LEN_Q if tier == "quick" else LEN_T
        for sk in ("octet", "utf8", "time"):
            for n in lens + ([2**24 - 1, 2**24] if tier == "quick" and sk == "octet" else []):
                if sk == "time" and n > 65537:
                    continue
                _report(acc, case_str(a, sk, n, seed), ["str", sk, n])
                acc.ev()
                acc.nt_counted()
        # text that is not in a Unicode normal form (the writer must encode the code points it was given, not an equivalent string)
        for i_, txt in enumerate(["e\u0301", "\u212b", "\u2126x", "\u1100\u1161\u11a8", "a\u0323\u0307", "\ufb01", "\u00e9e\u0301", "\U0002f800", "\ufeffabc", "a\u0000b"]):
            exp = der.tlv(0, False, 12, txt.encode("utf-8"))
            acc.ev()
            acc.nt_counted()
            try:
                w = a.ASN1Writer()
                w.write_utf8_string(txt)
                got = bytes(w.get_data())
                back = a.ASN1Reader(exp).read_utf8_string()
            except Exception as e:  # noqa: BLE001
                acc.violate(f"utf8-form.exc.{type(e).__name__}", ["utf8-form", i_], {"exc": repr(e)})
                continue
            if got != exp or back != txt:
                acc.violate("utf8-form.bytes", ["utf8-form", i_], {"text": txt.encode("unicode_escape").decode(), "got": got.hex(), "expected": exp.hex(), "read_back_equal": back == txt})
        # octet strings whose CONTENT is itself DER (an OCTET STRING, several, a SEQUENCE, nothing) under every kind of tag: the value is
        # opaque, the reader hands back exactly the octets that were written
        for ci, content in enumerate([b"\x04\x06secret", b"\x04\x00", b"\x04\x01a\x04\x01b", b"\x30\x03\x04\x01x", b"\x24\x03\x04\x01x", b"\x0c\x02hi", b"\x04\x81\x01z", b"\x05\x00", b""]):
            for ti, (cls_, cons_, num_) in enumerate([(0, False, 4), (2, False, 0), (2, True, 0), (0, True, 4), (2, True, 31), (1, True, 5), (0, True, 16)]):
                case = ["octet-content", ci, ti]
                acc.ev()
                acc.nt_counted()
                tg = _tag(a, cls_, cons_, num_)
                exp = der.tlv(cls_, cons_, num_, content)
                try:
                    w = a.ASN1Writer()
                    w.write_octet_string(content, tag=tg)
                    got = bytes(w.get_data())
                    rd_ = a.ASN1Reader(exp + b"\x05\x00")
                    back = bytes(rd_.read_octet_string(tag=tg))
                    rest = bytes(rd_.get_remaining_data()) if hasattr(rd_, "get_remaining_data") else b"\x05\x00"
                except Exception as e:  # noqa: BLE001
                    acc.violate(f"octet-content.exc.{type(e).__name__}", case, {"exc": repr(e), "content": content.hex(), "tag": [cls_, cons_, num_]})
                    continue
                if got != exp or back != content or rest != b"\x05\x00":
                    acc.violate("octet-content.value", case, {"content": content.hex(), "tag": [cls_, cons_, num_], "written": got.hex(), "expected": exp.hex(), "read_back": back.hex(), "rest": rest.hex()})
        acc.sample({"string": "utf8", "content_len": 65537})
    elif kind == "buffers":
        # the same DER decoded from every buffer type the reader accepts (bytes, bytearray, memoryviews of item format B / b / c, a ctypes
        # array): identical values, whatever the item type of the view
        import ctypes

        data = der.enc_seq(der.tlv(2, False, 40000, b"\x01\x02"), der.enc_oid("1.2.840.113549.1.7.3"), der.enc_int(-65536), der.enc_octets(bytes(range(200))), der.tlv(1, True, 31, der.enc_int(5)))
        def read_all(buf):
            r = a.ASN1Reader(buf)
            sq = r.read_sequence()
            out = [bytes(sq.read_octet_string(_tag(a, 2, False, 40000))), sq.read_object_identifier(), sq.read_integer(), bytes(sq.read_octet_string())]
            inner = sq.read_sequence(tag=_tag(a, 1, True, 31))
            out.append(inner.read_integer())
            return out
        want = read_all(data)
        carr = (ctypes.c_char * len(data)).from_buffer_copy(data)
        forms = {"bytes": data, "bytearray": bytearray(data), "mv-bytes": memoryview(data), "mv-bytearray": memoryview(bytearray(data)), "mv-cast-c": memoryview(data).cast("c"),
                 "mv-cast-b": memoryview(data).cast("b"), "ctypes-char-array": memoryview(carr), "mv-slice": memoryview(b"\x00" + data + b"\x00")[1:-1]}
        for name, buf in forms.items():
            acc.ev()
            acc.nt_counted()
            try:
                got = read_all(buf)
            except Exception as e:  # noqa: BLE001
                acc.violate(f"buffers.exc.{type(e).__name__}", ["buffers", name], {"exc": repr(e)})
                continue
            if got != want:
                acc.violate("buffers.value", ["buffers", name], {"got": repr(got)[:200]})
        acc.sample({"buffer types": sorted(forms)})
    elif kind == "tag":
        n = 0
        for cls in range(4):
            for constructed in (False, True):
                for number in TAG_NUMS:
                    if cls == 0 and number > 36:
                        continue
                    for clen in (0, 127, 128):
                        _report(acc, case_tag(a, cls, constructed, number, clen), ["tag", cls, constructed, number, clen])
                        n += 1
        for member in a.TypeTagNumber:
            for constructed in (False, True):
                for clen in (0, 5, 128):
                    _report(acc, case_tag(a, 0, constructed, int(member), clen, True), ["tag", 0, constructed, int(member), clen, True])
                    n += 1
        acc.ev(n)
        acc.nt_counted(n)
        acc.sample({"tag": [2, True, 2**32], "content_len": 128})
    elif kind == "tree":
        leaves = LEAVES3 if tier == "quick" else LEAVES6
        kinds = KINDS[:3] if tier == "quick" else KINDS
        all_t = trees(2, leaves, kinds)
        part = [x for i, x in enumerate(all_t) if i % 3 == shard[1]]
        if shard[1] == 0:
            # wide and comb-shaped trees: many constructed siblings under one parent (100, 101, 150, 1000), and 5 levels of 30 siblings
            # where only the last child of each level has children - breadth must not be mistaken for depth
            for width in (100, 101, 150, 1000):
                for kk in ("seq", "set"):
                    part.append(("seq", tuple((kk, (("int", i_ % 7),)) for i_ in range(width))))
            comb: t.Any = ("seq", (("int", 1),))
            for _lvl in range(5):
                comb = ("seq", tuple(("seq", (("int", j_ % 3),)) for j_ in range(29)) + (comb,))
            part.append(comb)
            chain: t.Any = ("int", 5)
            for _lvl in range(60):
                chain = ("seq", (chain,))
            part.append(chain)
        for tr in part:
            res = case_tree(a, tr)
            if res:
                _report(acc, res, ["tree", repr(tr)])
            acc.nt(ref_enc(tr))
        acc.ev(len(part))
        acc.outcome("ok", len(part))
        acc.sample({"tree": repr(part[-1]), "der": ref_enc(part[-1]).hex()})
    elif kind == "concat":
        n = 0
        for k in (1, 2, 3):
            for seq in itertools.product(CONCAT_ALPHA, repeat=k):
                res = case_concat(a, seq)
                n += 1
                if res:
                    _report(acc, res, ["concat", repr(seq)])
        acc.ev(n)
        acc.nt_counted(n)
        acc.outcome("ok", n)
    elif kind == "hdr":
        n = 0
        for cls in range(4):
            for constructed in (False, True):
                for number in (0, 4, 16, 30, 31, 36, 128, 2**21) if cls else (4, 16, 17, 30, 31, 36):
                    for length in LEN_Q:
                        _report(acc, case_hdr(a, cls, constructed, number, length), ["hdr", cls, constructed, number, length])
                        n += 1
        acc.ev(n)
        acc.nt_counted(n)
    elif kind == "readerops":
        n = 0
        depth = 6 if tier == "quick" else 8
        for k in range(1, depth + 1):
            for idx, ops in enumerate(itertools.product(OPS, repeat=k)):
                if idx % 4 != shard[1]:
                    continue
                res = case_readerops(a, "".join(ops))
                n += 1
                if res:
                    _report(acc, res, ["readerops", "".join(ops)])
        acc.ev(n)
        acc.nt_counted(n)
        acc.outcome("ok", n)
        acc.sample({"reader_operation_sequence": "PSRHGP"[:depth], "ops": "P=peek S=peek+skip R=read H=peek+read(header) G=get_remaining_data", "depth": depth})
    else:
        raise AssertionError(shard)


def replay(case, seed, acc) -> None:
    a = _mods()
    k = case[0]
    if k == "readerops":
        _report(acc, case_readerops(a, case[1]), case)
        acc.ev()
        return
    if k == "writerops":
        ops = [tuple(o) for o in case[1]]
        got, want = writer_history(a, ops)
        acc.ev()
        if got != want:
            acc.violate("writerops.bytes", case, {"got": got.hex() if isinstance(got, bytes) else got, "model": want.hex()})
        return
    if k == "int":
        _report(acc, case_int(a, int(case[1])), case)
    elif k == "enum":
        _report(acc, case_int(a, int(case[1]), "enum"), case)
    elif k == "oid":
        _report(acc, case_oid(a, [int(x) for x in case[1]]), case)
    elif k == "str":
        _report(acc, case_str(a, case[1], case[2], seed), case)
    elif k == "tag":
        _report(acc, case_tag(a, *case[1:]), case)
    elif k == "buffers":
        run_shard(["buffers"], "quick", seed, acc)
        for kk in list(acc.violations):
            acc.violations[kk] = [e for e in acc.violations[kk] if e["case"] == case]
            if not acc.violations[kk]:
                del acc.violations[kk]
        acc.violation_count = sum(len(v) for v in acc.violations.values())
        return
    elif k in ("utf8-form", "octet-content"):
        run_shard(["str"], "quick", seed, acc)
        for kk in list(acc.violations):
            acc.violations[kk] = [e for e in acc.violations[kk] if e["case"] == case]
            if not acc.violations[kk]:
                del acc.violations[kk]
        acc.violation_count = sum(len(v) for v in acc.violations.values())
        return
    elif k == "tree":
        _report(acc, case_tree(a, eval(case[1])), case)  # noqa: S307 - our own repr
    elif k == "concat":
        _report(acc, case_concat(a, eval(case[1])), case)  # noqa: S307
    elif k == "hdr":
        _report(acc, case_hdr(a, *case[1:]), case)
    else:
        raise AssertionError(case)
    acc.ev()


def calibrate() -> None:
    der.selfcheck()


def finish(tier, seed, merged) -> None:
    from mc.runner import Vacuous

    if merged.evaluations < 100000:
        raise Vacuous("C07 explored implausibly few cases")
