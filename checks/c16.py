"""C16 — key material is accepted only from replies sealed by the security context."""
from __future__ import annotations

import struct
import typing as t

from env import refdc, secctx, seams, transport
from mc import vloop
from ref import cms, dcerpc as rpc, gkdi, ndr64

ID = "C16"
LEVEL = "fault_enumeration"
RULE = (
    "authentic exchange: real pyspnego NTLM on both ends (client inside dpapi-ng, server inside the reference DC), GetKey for unprotect and for protect, header signing negotiated / not. "
    "The adversary alters the genuine sealed reply, exhaustively over: (a) security trailer removed (auth_len=0, frag_len fixed) with body in {genuine plaintext stub, attacker envelope for the "
    "same root key id, attacker envelope for another root key}; (b) single-bit flips (quick: every bit of header, response header, security trailer, signature, first/last 16 body bytes, bit 0 of "
    "every other body byte; thorough: every bit); (c) pad_length 0..255, auth_len/frag_len +-{1,8,16} with and without matching bytes, alloc_hint/context/cancel edits, packet type -> every other "
    "type; (d) replay of the sealed reply to request #1 as reply to request #2, and a reply sealed by another connection's context; (e) reply signed but not encrypted (integrity level). "
    "The whole alteration set is also played at the RPC-client level against a scripted security context that leaves data_readonly buffers unsigned (so 'header signing off' really is off): the stub handed to the caller must be byte-for-byte the sealed plaintext, or an exception. Trailer removal is combined with every value of the header flags byte. Oracle: (a) and (f) must raise; otherwise raise, or return exactly what the genuine reply yields (unprotect: the plaintext; protect: a blob that names the DC's key and opens with the genuine "
    "root key). A blob that opens with the attacker's key, or a plaintext obtained through an unsealed reply, is the violation. Non-trivial = the tampered reply reached the client; distinct by alteration."
    " Lifecycle part: the authentication provider of a finished connection handed to a NEW client object whose peer is an impostor without keys (sync, async, lenient / strict provider); close() from another task while a request is in flight and the reply that arrives is unsealed - the impostor's stub is never returned and no request leaves unsealed."
    ' Alterations include the sealed reply replaced by an unsealed fault PDU that carries a stub (5 status codes incl. 0 x 3 bodies x 3 flag values), and by an unsealed fault (3 status codes x 4 flag values incl. PFC_DID_NOT_EXECUTE) followed on the same stream by an unsealed response or by the authentic reply (72 sequences).'
)
ASSUME = ["pyspnego's NTLM implementation is the security context (both ends)", "a client blocking on a shortened/lengthened frame is an error outcome (the real peer would close)"]
BOUND = {"quick": "bit flips: header/trailer/signature/body edges + bit0 of each body byte, header signing on; sign-off subset", "thorough": "every single-bit flip, both header-signing modes, both operations, sync + async"}

SID = "S-1-5-21-1-2-3-1104"
NOW = (361, 10, 12)
PT = b"c16-secret"

_st: t.Dict[str, t.Any] = {}


def setup(seed: int):
    if _st.get("seed") != seed:
        d = seams.Drbg(("C16", seed))
        rk = seams.make_root(d, "SHA512")
        evil_same = rk._replace(key=d.bytes(64))
        evil_other = seams.make_root(d, "SHA512")
        blob = cms.ref_encrypt(rk, SID, PT, (361, 3, 5), cek=d.bytes(32), gcm_nonce_=d.bytes(12), key_nonce=d.bytes(32))
        _st.update(seed=seed, rk=rk, evil_same=evil_same, evil_other=evil_other, blob=blob)
    return _st


def worker_init() -> None:
    secctx.ntlm_setup()
    seams.block_network()


# -- alterations: each is (name, fn(sealed, info) -> bytes) -----------------------------------------------------


def fix_len(b: bytes) -> bytes:
    return b[:8] + struct.pack("<H", len(b)) + b[10:]


def strip_trailer(sealed: bytes, info: dict, body: bytes) -> bytes:
    hdr = bytearray(sealed[:24])
    hdr[10:12] = b"\x00\x00"
    hdr[16:20] = struct.pack("<I", len(body))
    return fix_len(bytes(hdr) + body)


def evil_stub(st: dict, which: str, op: str, sd: bytes) -> bytes:
    erk = st["evil_same"] if which == "same" else st["evil_other"]
    pos = (361, 3, 5) if op == "unprotect" else NOW
    env = gkdi.server_envelope(erk, sd, pos[0], pos[1], pos[2], domain="domain.test", forest="domain.test")
    return ndr64.getkey_response(gkdi.pack_envelope(env), 0)


def alterations(tier: str, sealed_len: int, body_len: int, sign: bool) -> t.List[t.Tuple[str, t.Any]]:
    """list of (name, descriptor); descriptor is interpreted by apply()"""
    alts: t.List[t.Tuple[str, t.Any]] = []
    for body in ("genuine", "genuine+pad", "evil-same", "evil-other"):
        alts.append((f"notrailer:{body}", ("notrailer", body)))
    t_off = 24 + body_len
    if tier == "thorough":
        bits = range(sealed_len * 8)
    else:
        byts = set(range(0, 24)) | set(range(24, 40)) | set(range(t_off - 16, sealed_len))
        bits = sorted({b * 8 + k for b in byts for k in range(8)} | {b * 8 for b in range(24, t_off)})
        if not sign:
            bits = [b for b in bits if b // 8 < 24 or b // 8 >= t_off or b % 64 == 0]
    for bit in bits:
        alts.append((f"flip:{bit}", ("flip", bit)))
    for pad in range(256) if tier == "thorough" or sign else range(0, 256, 5):
        alts.append((f"pad:{pad}", ("pad", pad)))
    for field, off in (("auth_len", 10), ("frag_len", 8)):
        for delta in (-16, -8, -1, 1, 8, 16):
            for match in (False, True):
                alts.append((f"{field}{delta:+d}:{'resized' if match else 'asis'}", ("len", off, delta, match)))
    for name, off, width, vals in (("alloc_hint", 16, 4, (0, 1, 2**32 - 1)), ("ctx_id", 20, 2, (1, 0xFFFF)), ("cancel", 22, 1, (1, 255)), ("reserved", 23, 1, (1,)), ("call_id", 12, 4, (2, 0)), ("flags", 3, 1, (0, 1, 2, 0x83))):
        for v in vals:
            alts.append((f"{name}={v}", ("set", off, width, v)))
    for ptype in (0, 3, 11, 12, 13, 14, 15, 1, 19):
        alts.append((f"ptype={ptype}", ("set", 2, 1, ptype)))
    # forged replies that keep a security trailer but claim a weaker protection level / another call id, with a cleartext body
    for level in (0, 1, 2, 3, 4, 5, 6, 7):
        for body in ("genuine", "evil-other"):
            for sigkind in ("junk", "kept"):
                alts.append((f"forged:level{level}:{body}:{sigkind}", ("forged", level, body, sigkind)))
                for aty in (0, 9, 16, 255):  # ... and another authentication service (0 = none)
                    alts.append((f"forged:level{level}:{body}:{sigkind}:type{aty}", ("forged", level, body, sigkind, aty)))
    # an unsealed "first fragment" (PFC_LAST_FRAG clear, no trailer) put in front of the untouched authentic reply
    for body in ("evil-other", "genuine"):
        for first_flags in (0x01, 0x00, 0x81):
            for auth_flags in (None, 0x02, 0x00):
                alts.append((f"prefrag:{body}:{first_flags:#x}:{auth_flags}", ("prefrag", body, first_flags, auth_flags)))
    # trailer-less replies whose 16-bit auth_length is not 0 but has the top bit set / is maximal, followed by 0..16 stray octets
    for av in (0x7FFF, 0x8000, 0x8001) + tuple(range(0xFFF0, 0x10000)):
        for tail in range(0, 17):
            for body in ("evil-other",) + (("genuine",) if tail in (0, 7, 8) else ()):
                alts.append((f"authlen{av:#x}:tail{tail}:{body}", ("authlen", av, tail, body)))
    for fl in range(256):
        if fl != 3:
            alts.append((f"notrailer-flags{fl:#04x}", ("notrailer-flags", fl, "genuine" if fl % 2 else "evil-other")))
    for cid in (0, 2, 0x7FFFFFFF):
        for body in ("genuine", "evil-other"):
            alts.append((f"notrailer-callid{cid}:{body}", ("notrailer-callid", cid, body)))
            alts.append((f"sealed-callid{cid}", ("set", 12, 4, cid)))
    # the reply replaced by an unsealed PDU of ANOTHER type that carries a stub: a fault (status 0 = "no error", and real status codes), with
    # and without stub, several flag values - whatever the codec makes of it, the stub inside is not what the peer sealed
    for status in (0, 1, 5, 0x1C010003, 0x000006BB):
        for body in ("evil-other", "genuine", "empty"):
            for fl in (3, 0x23, 0x03 | 0x40):
                alts.append((f"asfault:{status:#x}:{body}:{fl:#x}", ("asfault", status, body, fl)))
    # an unsealed fault (with and without PFC_DID_NOT_EXECUTE, the "safe to call again" flag) FOLLOWED by a second PDU on the same stream: an
    # unsealed response with a stub, or the authentic sealed reply - a client that calls again must protect and verify the second exchange too
    for status in (0x1C010003, 0, 0x000006BB):
        for fl in (0x23, 0x03, 0x20, 0x22):
            for body in ("evil-other", "genuine"):
                for follow in ("notrailer", "sealed", "notrailer-twice"):
                    alts.append((f"fault-then:{status:#x}:{fl:#x}:{body}:{follow}", ("fault-then", status, fl, body, follow)))
    alts.append(("integrity-level", ("integrity",)))
    alts.append(("other-connection-context", ("otherctx",)))
    alts.append(("truncate-signature", ("len", 10, -4, True)))
    alts.append(("zero-signature", ("zerosig",)))
    return alts


def apply(desc, sealed: bytes, info: dict, st: dict, op: str, sd: bytes) -> bytes:
    k = desc[0]
    if k == "notrailer":
        which = desc[1]
        if which == "genuine":
            body = info["plain_stub"]
        elif which == "genuine+pad":
            body = info["body"]
        else:
            body = evil_stub(st, "same" if which == "evil-same" else "other", op, sd)
        return strip_trailer(sealed, info, body)
    if k == "asfault":
        _, status, which, fl = desc
        body = b"" if which == "empty" else (info["plain_stub"] if which == "genuine" else evil_stub(st, "other", op, sd))
        call_id = struct.unpack("<I", sealed[12:16])[0]
        return rpc.enc_fault(call_id, struct.unpack("<H", sealed[20:22])[0], status, stub=body, flags=fl)
    if k == "fault-then":
        _, status, fl, which, follow = desc
        body = info["plain_stub"] if which == "genuine" else evil_stub(st, "other", op, sd)
        call_id = struct.unpack("<I", sealed[12:16])[0]
        fault = rpc.enc_fault(call_id, struct.unpack("<H", sealed[20:22])[0], status, stub=b"", flags=fl)
        second = sealed if follow == "sealed" else strip_trailer(sealed, info, body)
        return fault + second * (2 if follow == "notrailer-twice" else 1)
    if k == "flip":
        b = bytearray(sealed)
        b[desc[1] // 8] ^= 1 << (desc[1] % 8)
        return bytes(b)
    if k == "prefrag":
        _, which, first_flags, auth_flags = desc
        body = info["plain_stub"] if which == "genuine" else evil_stub(st, "other", op, sd)
        first = bytearray(strip_trailer(sealed, info, body))
        first[3] = first_flags
        rest = bytearray(sealed)
        if auth_flags is not None:
            rest[3] = auth_flags
        return bytes(first) + bytes(rest)
    if k == "authlen":
        _, av, tail, which = desc
        body = info["plain_stub"] if which == "genuine" else evil_stub(st, "other", op, sd)
        out = bytearray(strip_trailer(sealed, info, body) + bytes(range(1, tail + 1)))
        out[8:10] = struct.pack("<H", len(out))
        out[10:12] = struct.pack("<H", av)
        return bytes(out)
    if k == "forged":
        level, which, sigkind = desc[1:4]
        body = info["body"] if which == "genuine" else evil_stub(st, "other", op, sd)
        body = body + b"\x00" * (-len(body) % 16)
        pad = len(body) - (len(info["plain_stub"]) if which == "genuine" else len(evil_stub(st, "other", op, sd)))
        trailer = bytearray(info["trailer"])
        trailer[1] = level
        trailer[2] = pad
        if len(desc) > 4:
            trailer[0] = desc[4]
        sig = sealed[-info["sig_len"] :] if sigkind == "kept" else bytes(range(1, info["sig_len"] + 1))
        hdr = bytearray(sealed[:24])
        hdr[16:20] = struct.pack("<I", len(body))
        return fix_len(bytes(hdr) + body + bytes(trailer) + sig)
    if k == "notrailer-flags":
        _, fl, which = desc
        body = info["plain_stub"] if which == "genuine" else evil_stub(st, "other", op, sd)
        out = bytearray(strip_trailer(sealed, info, body))
        out[3] = fl
        return bytes(out)
    if k == "notrailer-callid":
        _, cid, which = desc
        body = info["plain_stub"] if which == "genuine" else evil_stub(st, "other", op, sd)
        out = bytearray(strip_trailer(sealed, info, body))
        out[12:16] = struct.pack("<I", cid)
        return bytes(out)
    if k == "pad":
        t_off = 24 + len(info["body"])
        b = bytearray(sealed)
        b[t_off + 2] = desc[1]
        return bytes(b)
    if k == "len":
        _, off, delta, match = desc
        b = bytearray(sealed)
        cur = struct.unpack("<H", b[off : off + 2])[0]
        b[off : off + 2] = struct.pack("<H", (cur + delta) & 0xFFFF)
        if match:
            if delta > 0:
                b += b"\x00" * delta
            else:
                del b[delta:]
            if off == 10:  # auth_len changed together with the bytes: keep frag_len consistent
                b[8:10] = struct.pack("<H", len(b))
        return bytes(b)
    if k == "set":
        _, off, width, v = desc
        b = bytearray(sealed)
        b[off : off + width] = v.to_bytes(width, "little")
        return bytes(b)
    if k == "zerosig":
        return sealed[: -info["sig_len"]] + b"\x00" * info["sig_len"]
    if k == "integrity":
        import spnego.iov as siov

        conn = info["conn"]
        # sign without encrypting: body in clear, level byte says PKT_INTEGRITY. (consumes a sequence number of the
        # server context, like a real server that sealed once more)
        trailer = bytearray(info["trailer"])
        trailer[1] = 5
        ty = siov.BufferType.sign_only if conn.sign_header else siov.BufferType.data_readonly
        res = conn.ctx.wrap_iov([(ty, info["hdr"]), info["body"], (ty, bytes(trailer)), siov.BufferType.header], encrypt=False, qop=None)
        return info["hdr"] + (res.buffers[1].data or b"") + bytes(trailer) + (res.buffers[3].data or b"")
    if k == "otherctx":
        import spnego
        import spnego.iov as siov

        srv = secctx.ntlm_server()
        cli = spnego.client(secctx.NTLM_USER, secctx.NTLM_PASS, hostname="dc", service="host", protocol="ntlm", context_req=spnego.ContextReq.default | spnego.ContextReq.dce_style)
        srv.step(cli.step(srv.step(cli.step())))
        ty = siov.BufferType.sign_only if info["conn"].sign_header else siov.BufferType.data_readonly
        res = srv.wrap_iov([(ty, info["hdr"]), info["body"], (ty, info["trailer"]), siov.BufferType.header], encrypt=True, qop=None)
        return info["hdr"] + (res.buffers[1].data or b"") + info["trailer"] + (res.buffers[3].data or b"")
    raise AssertionError(desc)


# -- one execution -------------------------------------------------------------------------------------------


def run_api(seed: int, op: str, api: str, sign: bool, desc) -> t.Tuple[str, t.Any, dict]:
    import dpapi_ng

    st = setup(seed)
    rk = st["rk"]
    dc = refdc.DC([rk], now=NOW, sec="ntlm", header_sign=sign)
    seen: t.Dict[str, t.Any] = {}

    def tamper(conn, sealed, info):
        seen["info"] = info
        seen["sealed"] = sealed
        if desc is None:
            return sealed
        sd = dc.getkey_calls[-1][0]
        out = apply(desc, sealed, info, st, op, sd)
        seen["tampered"] = out
        return out

    dc.tamper = tamper
    kw = dict(server="dc", username=secctx.NTLM_USER, password=secctx.NTLM_PASS, auth_protocol="ntlm")
    with transport.network(dc):
        try:
            if op == "unprotect":
                if api == "sync":
                    v = dpapi_ng.ncrypt_unprotect_secret(st["blob"], **kw)
                else:
                    v = vloop.run(dpapi_ng.async_ncrypt_unprotect_secret(st["blob"], **kw))
            else:
                if api == "sync":
                    v = dpapi_ng.ncrypt_protect_secret(PT, SID, **kw)
                else:
                    v = vloop.run(dpapi_ng.async_ncrypt_protect_secret(PT, SID, **kw))
            return "ok", v, seen
        except (transport.BlocksForever, vloop.Deadlock) as e:
            return "blocked", repr(e), seen
        except transport.Spin as e:
            return "spin", repr(e), seen
        except Exception as e:  # noqa: BLE001
            return "exc", (type(e).__name__, str(e)[:120]), seen


def judge(seed: int, op: str, api: str, sign: bool, name: str, desc, acc) -> None:
    st = setup(seed)
    status, v, seen = run_api(seed, op, api, sign, desc)
    case = ["alt", op, api, sign, name]
    if "info" not in seen:
        acc.violate("harness.reply-not-reached", case, {"status": status, "value": repr(v)[:200]})
        return
    acc.nt(("alt", op, api, sign, name))
    unsealed = desc is not None and desc[0] in ("notrailer", "notrailer-callid", "notrailer-flags", "forged", "authlen", "prefrag")
    if status == "spin":
        acc.violate("spin", case, {"detail": v})
        return
    if status in ("exc", "blocked"):
        acc.outcome(f"rejected:{v[0] if status == 'exc' else 'blocked'}")
        if desc is None:
            acc.violate("genuine.rejected", case, {"value": repr(v)})
        return
    # the call returned something
    if unsealed:
        detail = {"returned": repr(bytes(v))[:80]}
        if op == "protect":
            for who in ("rk", "evil_same", "evil_other"):
                try:
                    cms.ref_decrypt(st[who], bytes(v))
                    detail["opens_with"] = who
                except Exception:  # noqa: BLE001
                    pass
        acc.violate("notrailer.accepted", case, detail, size=len(name))
        return
    if op == "unprotect":
        if bytes(v) != PT:
            acc.violate("tampered.wrong-plaintext", case, {"returned": repr(bytes(v))[:80]})
        else:
            acc.outcome("harmless:same-plaintext")
    else:
        try:
            pt, cek, b, kid = cms.ref_decrypt(st["rk"], bytes(v), want_cek=True)
            ok = pt == PT and (kid.l0, kid.l1, kid.l2) == NOW
        except Exception as e:  # noqa: BLE001
            ok = False
        if not ok:
            who = None
            for w in ("evil_same", "evil_other"):
                try:
                    cms.ref_decrypt(st[w], bytes(v))
                    who = w
                except Exception:  # noqa: BLE001
                    pass
            acc.violate("tampered.foreign-key-used", case, {"opens_with": who})
        else:
            acc.outcome("harmless:genuine-key")


# -- replay at the RPC-client level ---------------------------------------------------------------------------------


def run_replay_attack(seed: int, api: str, sign: bool, acc) -> None:
    """two GetKey requests on one authenticated connection; the reply to #2 is the sealed reply to #1, verbatim"""
    from dpapi_ng._gkdi import ISD_KEY, GetKey
    from dpapi_ng._rpc import NDR64, ContextElement, bind_time_feature_negotiation, create_rpc_connection

    st = setup(seed)
    dc = refdc.DC([st["rk"]], now=NOW, sec="ntlm", header_sign=sign)
    sealed_replies: t.List[bytes] = []
    plains: t.List[bytes] = []

    def tamper(conn, sealed, info):
        sealed_replies.append(sealed)
        plains.append(info["body"])
        return sealed_replies[0]

    dc.tamper = tamper
    ctxs = [ContextElement(0, ISD_KEY, [NDR64]), ContextElement(1, ISD_KEY, [bind_time_feature_negotiation()])]
    sd = b"\x01\x00\x04\x80" + b"\x00" * 16
    case = ["replay", api, sign]
    with transport.network(dc):
        rpcc = create_rpc_connection("dc", dc.isd_port, username=secctx.NTLM_USER, password=secctx.NTLM_PASS, auth_protocol="ntlm")
        try:
            rpcc.bind(contexts=ctxs)
            r1 = rpcc.request(0, 0, GetKey(sd, st["rk"].rkid, 361, 3, 5).pack())
            if bytes(r1.stub_data) != plains[0]:
                acc.violate("stub.not-what-was-sealed", case, {"got": bytes(r1.stub_data).hex()[:100]})
            try:
                r2 = rpcc.request(0, 0, GetKey(sd, st["rk"].rkid, 361, 9, 9).pack())
            except Exception as e:  # noqa: BLE001
                acc.outcome(f"replay-rejected:{type(e).__name__}")
            else:
                if bytes(r2.stub_data) != plains[1]:
                    acc.violate("replay.accepted", case, {"returned_is_reply_1": bytes(r2.stub_data) == plains[0]})
        finally:
            rpcc.close()
    acc.nt(("replay", api, sign))


def run_rpc_level(seed: int, api: str, sign: bool, desc, name: str, acc) -> None:
    """the same alterations against SyncRpcClient/AsyncRpcClient.request with the scripted security context, which (unlike pyspnego's
    NTLM) does NOT sign data_readonly buffers, so 'header signing not negotiated' really leaves header and trailer unsigned.
    Oracle on the stub handed to the caller: exactly the plaintext the peer sealed, or an exception."""
    from dpapi_ng._gkdi import ISD_KEY, GetKey
    from dpapi_ng._rpc import NDR64, ContextElement, async_create_rpc_connection, bind_time_feature_negotiation, create_rpc_connection

    st = setup(seed)
    dc = refdc.DC([st["rk"]], now=NOW, sec="scripted", header_sign=sign)
    seen: t.Dict[str, t.Any] = {}

    def tamper(conn, sealed, info):
        seen["info"] = info
        if desc is None:
            return sealed
        try:
            out = apply(desc, sealed, info, st, "unprotect", dc.getkey_calls[-1][0])
            seen["noop"] = bytes(out) == bytes(sealed)
            return out
        except Exception as e:  # noqa: BLE001 - alteration not applicable to this context (e.g. NTLM-only)
            seen["skip"] = repr(e)
            return sealed

    dc.tamper = tamper
    ctxs = [ContextElement(0, ISD_KEY, [NDR64]), ContextElement(1, ISD_KEY, [bind_time_feature_negotiation()])]
    sd = dc_sd = None
    from ref import dtyp

    sd = dtyp.target_sd(dtyp.parse_sid_string(SID))
    stub = GetKey(sd, st["rk"].rkid, 361, 3, 5).pack()
    case = ["rpc", api, sign, name]
    with transport.network(dc), secctx.scripted_client(lambda u, p, **kw: secctx.ScriptedContext([b"C1"], 16)):
        try:
            if api == "sync":
                c = create_rpc_connection("dc", dc.isd_port, username="u", password="p", auth_protocol="ntlm")
                try:
                    c.bind(contexts=ctxs)
                    r = c.request(0, 0, stub)
                finally:
                    c.close()
            else:

                async def go():
                    c = await async_create_rpc_connection("dc", dc.isd_port, username="u", password="p", auth_protocol="ntlm")
                    try:
                        await c.bind(contexts=ctxs)
                        return await c.request(0, 0, stub)
                    finally:
                        await c.close()

                r = vloop.run(go())
            status = "ok"
        except (transport.BlocksForever, vloop.Deadlock):
            status = "blocked"
        except transport.Spin as e:
            acc.violate("rpc.spin", case, {"detail": repr(e)})
            return
        except Exception as e:  # noqa: BLE001
            status = "exc:" + type(e).__name__
    if "skip" in seen or "info" not in seen:
        return
    acc.nt(("rpc", api, sign, name))
    if status != "ok":
        acc.outcome("rpc-rejected")
        if desc is None:
            acc.violate("rpc.genuine.rejected", case, {"status": status})
        return
    sealed_plain = seen["info"]["body"]
    t_off = 24 + len(sealed_plain)
    touched = None
    if desc is not None and desc[0] == "flip":
        touched = desc[1] // 8
    elif desc is not None and desc[0] == "set":
        touched = desc[1]
    elif desc is not None and desc[0] == "pad":
        touched = t_off + 2
    if sign and touched is not None and not seen.get("noop") and (touched < 24 or t_off <= touched < t_off + 8):
        # header signing negotiated: the 24-byte header and the 8-byte security-trailer header are protected, an accepted
        # alteration of either is a violation even when the stub itself is untouched
        acc.violate("rpc.signed-header-or-trailer-alteration-accepted", case, {"alteration": name, "byte_offset": touched, "region": "header" if touched < 24 else "security trailer"}, size=len(name))
    elif bytes(r.stub_data) != sealed_plain:
        acc.violate("rpc.stub-differs-from-sealed-plaintext", case, {"returned_len": len(r.stub_data), "sealed_len": len(sealed_plain), "returned_head": bytes(r.stub_data)[:24].hex(), "sealed_head": sealed_plain[:24].hex()}, size=len(name))
    elif desc is not None and desc[0] in ("notrailer", "notrailer-callid", "notrailer-flags", "forged", "authlen", "prefrag"):
        acc.violate("rpc.unsealed-accepted", case, {"alteration": name}, size=len(name))
    elif sign and (r.sec_trailer is None or r.sec_trailer.pad_length != seen["info"]["pad"]):
        # only with header signing is the trailer (and its pad_length) protected; without it the property does not demand rejection
        acc.violate("rpc.pad_length-differs", case, {"pad_length": None if r.sec_trailer is None else r.sec_trailer.pad_length, "sealed_with": seen["info"]["pad"]}, size=len(name))
    else:
        acc.outcome("rpc-harmless")


def run_stub_shapes(seed: int, acc) -> int:
    """the request stub itself is varied (0, 1, 15, 16, 17 bytes; verification trailer on/off): whatever the caller sends, the request
    leaves sealed and a reply is only accepted sealed - for every stub shape x {genuine, trailer stripped (own / attacker body), body flip, signature flip}"""
    from checks import c13

    n = 0
    for api in ("sync", "async"):
        for sign in (True, False):
            for ln in (0, 1, 15, 16, 17):
                for vt_name in ("off", "isd"):
                    for alt in ("genuine", "strip:own", "strip:evil", "flip:body", "flip:sig", "strip:empty"):
                        reply_plain = b"REPLY-PLAINTEXT-%02d" % ln
                        peer = c13.Peer("scripted", 16, sign, reply_stub=reply_plain)
                        orig_feed = peer.feed

                        def feed(data, peer=peer, orig_feed=orig_feed, alt=alt):
                            out = orig_feed(data)
                            if rpc.decode(data)["ptype"] != rpc.REQUEST or alt == "genuine":
                                return out
                            sealed = out[0]
                            if alt.startswith("strip"):
                                body = {"own": peer.reply_body, "evil": b"ATTACKER-CHOSEN-STUB-BYTES-0123456", "empty": b""}[alt.split(":")[1]]
                                hdr = bytearray(sealed[:24])
                                hdr[10:12] = b"\x00\x00"
                                hdr[16:20] = struct.pack("<I", len(body))
                                return [fix_len(bytes(hdr) + body)]
                            b = bytearray(sealed)
                            b[24 if alt == "flip:body" else len(b) - 1] ^= 0x10
                            return [bytes(b)]

                        peer.feed = feed  # type: ignore[method-assign]
                        case = ["stub-shape", api, sign, ln, vt_name, alt]
                        stub = bytes(range(1, ln + 1))
                        try:
                            r, _ = c13.exchange(api, peer, stub, c13.vts()[vt_name], 0, 0)
                            status = "ok"
                        except (transport.BlocksForever, transport.Spin, vloop.Deadlock) as e:
                            status, r = "blocked", e
                        except Exception as e:  # noqa: BLE001
                            status, r = "exc", e
                        n += 1
                        acc.nt(tuple(case))
                        if len(peer.requests) == 1:
                            d = rpc.decode(peer.requests[0], strict=False)
                            if d["auth"] is None or d["auth"]["level"] != 6 or not isinstance(peer.unsealed[0] if peer.unsealed else None, (bytes, bytearray)):
                                acc.violate("stub-shape.request-not-sealed", case, {"auth": None if d["auth"] is None else d["auth"]["level"]}, size=ln)
                        if alt == "genuine":
                            if status != "ok" or bytes(r.stub_data) != peer.reply_body:
                                acc.violate("stub-shape.genuine-rejected", case, {"status": status, "detail": repr(r)[:200]}, size=ln)
                            acc.outcome("stub-shape-genuine")
                        elif status == "ok":
                            acc.violate("stub-shape.altered-reply-accepted", case, {"returned": bytes(r.stub_data)[:40].hex()}, size=ln)
                        else:
                            acc.outcome("stub-shape-rejected")
    return n


def run_rpc_replay(seed: int, acc) -> int:
    """two / three sealed requests on one connection; a later reply is replaced by the recorded sealed reply to an earlier request (same
    call id, valid signature for the earlier sequence number): the client must reject it - replay and sequence detection are part of
    what 'sealed by the security context' means, and the context only provides them if the client asks for them"""
    from checks import c13

    n = 0
    for api in ("sync", "async"):
        for sign in (True, False):
            for nreq, victim, source in ((2, 1, 0), (3, 2, 0), (3, 2, 1), (3, 1, 0)):
                peer = c13.Peer("scripted", 16, sign, reply_stub=b"REPLY-ONE")
                sealed_log: t.List[bytes] = []
                orig_feed = peer.feed

                def feed(data, peer=peer, orig_feed=orig_feed, sealed_log=sealed_log, victim=victim, source=source):
                    is_req = rpc.decode(data)["ptype"] == rpc.REQUEST
                    if is_req:
                        peer.reply_stub = b"REPLY-%d" % len(sealed_log) + b"x" * len(sealed_log)
                    out = orig_feed(data)
                    if is_req:
                        sealed_log.append(out[0])
                        if len(sealed_log) - 1 == victim:
                            return [sealed_log[source]]
                    return out

                peer.feed = feed  # type: ignore[method-assign]
                peer.client_wrap_failures = {99: "ContextExpiredError"}  # (selects exchange()'s per-request error capture; never fires)
                case = ["rpc-replay", api, sign, nreq, victim, source]
                try:
                    rs, cctx = c13.exchange(api, peer, [b"req-%d" % i for i in range(nreq)], None, 0, 0)
                except Exception as e:  # noqa: BLE001
                    acc.violate(f"rpc-replay.exc.{type(e).__name__}", case, {"exc": repr(e)})
                    continue
                n += 1
                acc.nt(tuple(case))
                if not isinstance(rs[victim], Exception):
                    acc.violate("rpc-replay.replayed-reply-accepted", case, {"returned": bytes(rs[victim].stub_data)[:40].hex(), "context_req": repr(getattr(cctx, "init_args", {}).get("context_req"))})
                else:
                    acc.outcome("rpc-replay-rejected")
                for i in range(victim):
                    if isinstance(rs[i], Exception):
                        acc.violate("rpc-replay.genuine-rejected", case + [i], {"exc": repr(rs[i])})
    return n


class _Impostor:
    """a peer WITHOUT any key: accepts every bind / alter_context (no token of its own) and answers a request with an unsealed response"""

    STUB = b"ATTACKER-CHOSEN-GROUP-KEY-MATERIAL" + b"\x00" * 14

    def __init__(self) -> None:
        self.requests: t.List[dict] = []

    def connect(self, host, port):
        return self

    def feed(self, data: bytes):
        d = rpc.decode(data, strict=False)
        if d["ptype"] == rpc.BIND:
            return [rpc.enc_ack_like(rpc.BIND_ACK, 3, d["call_id"], [(0, 0, rpc.NDR64)] + [(3, 3, refdc.NIL)] * (len(d["contexts"]) - 1), None, b"49664\x00")]
        if d["ptype"] == rpc.ALTER_CONTEXT:
            return [rpc.enc_ack_like(rpc.ALTER_CONTEXT_RESP, 3, d["call_id"], [(0, 0, rpc.NDR64)], None, b"")]
        if d["ptype"] == rpc.REQUEST:
            self.requests.append(d)
            return [rpc.enc_response(d["call_id"], d["ctx_id"], self.STUB)]
        return [None]


class _TwoPeers:
    """first connection: the genuine peer; every later connection: the impostor"""

    def __init__(self, genuine, impostor) -> None:
        self.peers, self.n = (genuine, impostor), 0

    def connect(self, host, port):
        self.n += 1
        return self.peers[0 if self.n == 1 else 1].connect(host, port)


def run_lifecycle(seed: int, acc) -> int:
    """objects used beyond one bind-request-close cycle. (a) the application keeps the authentication provider of a finished connection and
    hands it to a NEW client object whose peer is an impostor; (b) a client is closed by another task while its request is in flight and the
    reply that arrives is unsealed: in no case is the impostor's stub returned"""
    import socket

    from checks import c13
    from dpapi_ng._rpc import AsyncRpcClient, SyncRpcClient
    from dpapi_ng._rpc._auth import AuthenticationProvider

    n = 0

    class _Strict(secctx.ScriptedContext):
        def step(self, in_token=None, *a, **k):
            if len(self.steps) > self.complete_after:
                import spnego.exceptions as se

                raise se.InvalidTokenError(context_msg="scripted context: already established")
            return super().step(in_token, *a, **k)

    for api in ("sync", "async"):
        for prov_kind in ("lenient", "strict"):
            for sign in (True, False):
                case = ["lifecycle", "provider-reuse", api, prov_kind, sign]
                genuine, imp = c13.Peer("scripted", 16, sign, reply_stub=b"REPLY-ONE"), _Impostor()
                net = _TwoPeers(genuine, imp)
                cls_ = _Strict if prov_kind == "strict" else secctx.ScriptedContext
                with transport.network(net), secctx.scripted_client(lambda u, p, **k: cls_([b"CLI1"], 16)):
                    provider = AuthenticationProvider("u", "p", "dc", "ntlm")
                    results: t.List[t.Any] = []
                    try:
                        if api == "sync":
                            for _round in range(2):
                                c = SyncRpcClient(socket.create_connection(("dc", 49664)), provider)
                                try:
                                    c.bind(contexts=c13.contexts())
                                    results.append(bytes(c.request(0, 0, b"REQ-%d" % _round + b"\x00" * 3).stub_data))
                                except Exception as e:  # noqa: BLE001
                                    results.append(e)
                                finally:
                                    c.close()
                        else:

                            async def go():
                                import asyncio

                                for _round in range(2):
                                    rd, wr = await asyncio.open_connection("dc", port=49664)
                                    c = AsyncRpcClient(rd, wr, provider)
                                    try:
                                        await c.bind(contexts=c13.contexts())
                                        results.append(bytes((await c.request(0, 0, b"REQ-%d" % _round + b"\x00" * 3)).stub_data))
                                    except Exception as e:  # noqa: BLE001
                                        results.append(e)
                                    finally:
                                        await c.close()

                            vloop.run(go())
                    except (transport.BlocksForever, transport.Spin, vloop.Deadlock) as e:
                        results.append(e)
                n += 1
                acc.nt(tuple(case))
                if not results or isinstance(results[0], Exception) or not results[0].startswith(b"REPLY-ONE"):
                    acc.violate("lifecycle.genuine-exchange-failed", case, {"results": repr(results)[:200]})
                elif len(results) > 1 and not isinstance(results[1], Exception):
                    acc.violate("lifecycle.unsealed-reply-accepted", case, {"returned": results[1][:40].hex(), "request_left_sealed": bool(imp.requests and imp.requests[0]["auth"] is not None)})
                else:
                    acc.outcome("lifecycle-rejected")
                if imp.requests and (imp.requests[0]["auth"] is None or imp.requests[0]["auth"]["level"] != 6):
                    acc.violate("lifecycle.request-sent-unsealed", case, {"auth": repr(imp.requests[0]["auth"])[:80]})
    # (b) close() from another task while the request waits for its reply; the reply that then arrives is the impostor's
    from dpapi_ng._rpc import async_create_rpc_connection

    for sign in (True, False):
        for when in ("before-reply", "with-reply"):
            case = ["lifecycle", "close-in-flight", sign, when]
            genuine = c13.Peer("scripted", 16, sign, reply_stub=b"REPLY-ONE")
            orig_feed = genuine.feed

            def feed(data, orig_feed=orig_feed):
                if rpc.decode(data, strict=False)["ptype"] == rpc.REQUEST:
                    orig_feed(data)
                    d = rpc.decode(data, strict=False)
                    return [rpc.enc_response(d["call_id"], d["ctx_id"], _Impostor.STUB)]
                return orig_feed(data)

            genuine.feed = feed  # type: ignore[method-assign]
            out: t.Dict[str, t.Any] = {}
            with transport.network(genuine, defer=True) as hub, secctx.scripted_client(lambda u, p, **k: secctx.ScriptedContext([b"CLI1"], 16)):

                async def scenario():
                    import asyncio

                    c = await async_create_rpc_connection("dc", 49664, username="u", password="p", auth_protocol="ntlm")
                    await c.bind(contexts=c13.contexts())
                    out["bound"] = True

                    async def requester():
                        try:
                            out["r"] = bytes((await c.request(0, 0, b"REQ-0" + b"\x00" * 3)).stub_data)
                        except BaseException as e:  # noqa: BLE001
                            out["r"] = e

                    async def closer():
                        out["close_started"] = True
                        try:
                            await c.close()
                        except Exception as e:  # noqa: BLE001
                            out["close_exc"] = e

                    t1 = asyncio.ensure_future(requester())
                    await asyncio.sleep(0)
                    out["phase"] = "request-sent"
                    t2 = asyncio.ensure_future(closer())
                    await asyncio.gather(t1, t2, return_exceptions=True)

                def idle() -> bool:
                    # environment: before the request is out, deliver at once; afterwards hold the reply back until close() has started
                    if out.get("phase") != "request-sent" or when == "with-reply" or out.get("close_started"):
                        return hub.release_chunk()
                    return False

                try:
                    vloop.run(scenario(), idle)
                except (transport.BlocksForever, transport.Spin, vloop.Deadlock) as e:
                    out.setdefault("r", e)
                except Exception as e:  # noqa: BLE001
                    out.setdefault("r", e)
            n += 1
            acc.nt(tuple(case))
            r = out.get("r")
            if isinstance(r, (bytes, bytearray)):
                acc.violate("lifecycle.unsealed-reply-accepted", case, {"returned": bytes(r)[:40].hex()})
            elif not out.get("bound"):
                acc.violate("lifecycle.genuine-exchange-failed", case, {"results": repr(r)[:200]})
            else:
                acc.outcome("lifecycle-rejected")
    return n


PROTO_SPELLINGS: t.List[t.Any] = [None, 0, False, b"", "Kerberos", "NTLM", "Negotiate", "KERBEROS", "krb5", "kerberos ", " ntlm", "ntlm\n", "", "none", "negotiate-ex"]


def run_protocol_names(seed: int, acc) -> int:
    """auth_protocol values other than the three documented ones: whatever the library does with them, it must not fall back to an
    unauthenticated connection - the GetKey request never leaves unsealed and a cleartext reply with the attacker's envelope is never used"""
    import dpapi_ng

    st = setup(seed)
    n = 0
    for name in PROTO_SPELLINGS:
        for op in ("protect", "unprotect"):
            for api in ("sync", "async"):
                dc = RogueDC([st["rk"]], now=NOW)
                dc.rogue_mode, dc.rogue_st, dc.rogue_op, dc.rogue_saw_request = "no-trailer", st, op, None
                case = ["protocol-name", name, op, api]
                kw = dict(server="dc", username="u", password="p", auth_protocol=name)
                with transport.network(dc), secctx.scripted_client(lambda u, p, **k: secctx.ScriptedContext([b"C0"], 16, complete_after=1)):
                    try:
                        if op == "unprotect":
                            f = dpapi_ng.ncrypt_unprotect_secret if api == "sync" else dpapi_ng.async_ncrypt_unprotect_secret
                            r = f(st["blob"], **kw)
                        else:
                            f = dpapi_ng.ncrypt_protect_secret if api == "sync" else dpapi_ng.async_ncrypt_protect_secret
                            r = f(PT, SID, **kw)
                        v = r if api == "sync" else vloop.run(r)
                        status = "ok"
                    except (transport.BlocksForever, transport.Spin, vloop.Deadlock) as e:
                        status, v = "blocked", repr(e)
                    except Exception as e:  # noqa: BLE001
                        status, v = "exc", type(e).__name__
                n += 1
                acc.nt(tuple(case))
                req = dc.rogue_saw_request
                if req is not None and (req["auth"] is None or req["auth"]["level"] != 6):
                    acc.violate("protocol-name.request-sent-unsealed", case, {"auth": None if req["auth"] is None else req["auth"]["level"]})
                if status == "ok":
                    acc.violate("protocol-name.cleartext-reply-used", case, {"returned": repr(bytes(v))[:60]})
                else:
                    acc.outcome("protocol-name-rejected")
    return n


def run_overlap(seed: int, acc) -> int:
    """two async calls in flight at once on separate connections (virtual loop, replies held back): the GetKey reply of the first call is
    replaced by an unsealed one with the attacker's envelope while the other call runs - every interleaving with <= 2 deviations from
    run-to-completion order. The victim must raise whatever the bystander does in between."""
    import asyncio
    from asyncio import events

    import dpapi_ng
    from mc import explorer

    st = setup(seed)
    n = [0]
    for vop, bop in (("protect", "protect"), ("unprotect", "protect"), ("protect", "unprotect"), ("unprotect", "unprotect")):
        for body in ("evil-other", "genuine"):

            def body_fn(ch: explorer.Chooser, vop=vop, bop=bop, body=body):
                dc = refdc.DC([st["rk"]], now=NOW, sec="scripted")
                victim_conn: t.List[t.Any] = []

                def tamper(conn, sealed, info):
                    if not victim_conn:
                        victim_conn.append(conn)
                    if conn is not victim_conn[0]:
                        return sealed
                    return apply(("notrailer", body), sealed, info, st, vop, dc.getkey_calls[-1][0])

                dc.tamper = tamper
                loop = vloop.VirtualLoop()
                kw = dict(server="dc", username="u", password="p", auth_protocol="ntlm")
                started = [False, False]
                current = [-1]
                order: t.List[str] = []
                with transport.network(dc, defer=True) as hub, secctx.scripted_client(lambda u, p, **k: secctx.ScriptedContext([b"C1"], 16)), seams.clock((NOW[0] * 1024 + NOW[1] * 32 + NOW[2]) * gkdi.B + 5):
                    orig_open = hub.open_connection

                    async def open_tagged(host=None, port=None, **k):
                        r, wtr = await orig_open(host, port, **k)
                        wtr.owner = asyncio.current_task().get_name()
                        return r, wtr

                    def coro(i):
                        op = (vop, bop)[i]
                        if op == "protect":
                            return dpapi_ng.async_ncrypt_protect_secret(PT, SID, **kw)
                        return dpapi_ng.async_ncrypt_unprotect_secret(st["blob"], **kw)

                    gates: t.List[t.Any] = []

                    async def gated(i):
                        await gates[i]
                        return await coro(i)

                    def on_idle() -> bool:
                        menu = []
                        for i in ([current[0]] if current[0] >= 0 else []) + [x for x in (0, 1) if x != current[0]]:
                            if not started[i]:
                                menu.append((i, "start", None))
                            else:
                                for j, (wtr, _c) in enumerate(hub.pending):
                                    if getattr(wtr, "owner", None) == f"T{i}":
                                        menu.append((i, "deliver", j))
                                        break
                        if not menu:
                            return False
                        k_ = ch.choose(len(menu), ",".join(f"T{m[0]}:{m[1]}" for m in menu)) if len(menu) > 1 else 0
                        i, what, arg = menu[k_]
                        current[0] = i
                        order.append(f"{what[0]}{i}")
                        if what == "start":
                            started[i] = True
                            gates[i].set_result(None)
                        else:
                            hub.release(arg)
                        return True

                    loop.on_idle = on_idle
                    old = events._get_running_loop()
                    events._set_running_loop(loop)
                    try:
                        with seams.patched(asyncio, "open_connection", open_tagged):
                            gates.extend(loop.create_future() for _ in range(2))
                            tasks = [loop.create_task(gated(i), name=f"T{i}") for i in range(2)]
                            status = "ok"
                            try:
                                while not all(tk.done() for tk in tasks):
                                    if not loop._step():
                                        status = "deadlock"
                                        break
                            except vloop.Deadlock:
                                status = "deadlock"
                            res = []
                            for tk in tasks:
                                if not tk.done():
                                    res.append(("pending", None))
                                    tk.cancel()
                                elif tk.exception() is not None:
                                    res.append(("exc", type(tk.exception()).__name__))
                                else:
                                    res.append(("ok", bytes(tk.result())))
                    finally:
                        events._set_running_loop(old)
                        loop.shutdown()
                return status, res, order, bool(victim_conn)

            def on_exec(ch, r, vop=vop, bop=bop, body=body):
                status, res, order, tampered = r
                n[0] += 1
                case = ["overlap", vop, bop, body, ch.choices]
                acc.nt(("overlap", vop, bop, body, tuple(ch.choices)))
                acc.set_add("overlap_orders", tuple(order))
                if status != "ok":
                    acc.violate("overlap." + status, case, {"order": order, "results": repr(res)[:200]}, size=len(ch.choices))
                    return
                # which task owned the tampered connection: the one whose GetKey reached the DC first
                victims = [i for i, (st_, _v) in enumerate(res) if st_ != "ok"]
                oks = [i for i, (st_, _v) in enumerate(res) if st_ == "ok"]
                if tampered and len(oks) == 2:
                    acc.violate("overlap.unsealed-reply-accepted", case, {"order": order, "results": [r_[0] for r_ in res]}, size=len(ch.choices))
                for i in oks:
                    op = (vop, bop)[i]
                    v = res[i][1]
                    good = v == PT if op == "unprotect" else False
                    if op == "protect":
                        try:
                            good = cms.ref_decrypt(st["rk"], v) == PT
                        except Exception:  # noqa: BLE001
                            good = False
                    if not good:
                        acc.violate("overlap.wrong-result", case + [i], {"op": op, "order": order}, size=len(ch.choices))
                acc.outcome(f"overlap:rejected={len(victims)}")

            explorer.explore(body_fn, 2, on_exec)
    return n[0]


class RogueConn(refdc.Conn):
    """a peer that does not hold the session key: strips the security trailer from its handshake replies (or never completes the
    handshake) and answers GetKey - sealed or not - with a cleartext envelope of its own"""

    def __init__(self, dc, mode: str, st: dict) -> None:
        super().__init__(dc, "isd", "dc", dc.isd_port)
        self.mode, self.st = mode, st
        self.n_acks = 0

    def on_pdu(self, raw: bytes):
        d = rpc.decode(raw, strict=False)
        self.log(dir="c2s", what="pdu", pdu=d)
        if d["ptype"] in (rpc.BIND, rpc.ALTER_CONTEXT):
            self.n_acks += 1
            right = rpc.BIND_ACK if d["ptype"] == rpc.BIND else rpc.ALTER_CONTEXT_RESP
            res = [(0, 0, rpc.NDR64)] + [(3, 3, refdc.NIL)] * (len(d["contexts"]) - 1)
            a = d["auth"]
            if self.mode == "no-trailer" or a is None:
                auth = None
            elif self.mode == "empty-token":
                auth = dict(type=a["type"], level=a["level"], ctx=a["ctx"], token=b"")
            elif self.mode == "garbage-token":
                auth = dict(type=a["type"], level=a["level"], ctx=a["ctx"], token=b"\x00" * 40)
            elif self.mode.startswith("level"):
                # the (unprotected) trailer of the ack announces a weaker protection level than the client asked for
                auth = dict(type=a["type"], level=int(self.mode[5:]), ctx=a["ctx"], token=b"" if int(self.mode[5:]) % 2 else a["token"])
            else:  # echo the client's own token back
                auth = dict(type=a["type"], level=a["level"], ctx=a["ctx"], token=a["token"])
            flags = 3 | (d["flags"] & rpc.PFC_SIGN)
            return rpc.enc_ack_like(right, flags, d["call_id"], res, auth, b"49664\x00" if d["ptype"] == rpc.BIND else b"")
        if d["ptype"] == rpc.REQUEST:
            self.dc.rogue_saw_request = d
            from ref import dtyp as _d

            sd = _d.target_sd(_d.parse_sid_string(SID))
            stub = evil_stub(self.st, "other", self.dc.rogue_op, sd)
            if self.mode.endswith("+keep-trailer") and d["auth"] is not None:
                pad = -len(stub) % 16
                body = stub + b"\x00" * pad
                tr = dict(type=d["auth"]["type"], level=6, pad=pad, ctx=0, token=b"\x11" * len(d["auth"]["token"]))
                return rpc.enc_response(d["call_id"], d["ctx_id"], body, tr)
            return rpc.enc_response(d["call_id"], d["ctx_id"], stub)
        return None


class Rogue135(refdc.Conn):
    """everything on port 135: an honest endpoint mapper that names port 135 for ISD_KEY, and - on the same or on a new connection -
    a rogue ISD_KEY service without the session key that accepts any bind and answers GetKey in the clear with its own envelope"""

    def on_pdu(self, raw: bytes):
        d = rpc.decode(raw, strict=False)
        isd = d["ptype"] in (rpc.BIND, rpc.ALTER_CONTEXT) and any(ab == rpc.ISD_KEY for _, ab, _ in d["contexts"])
        if d["ptype"] == rpc.BIND and not isd:
            return super().on_pdu(raw)  # the honest EPM part
        if d["ptype"] in (rpc.BIND, rpc.ALTER_CONTEXT):
            self.log(dir="c2s", what="isd-bind-on-135", pdu=d)
            self.isd_bound = True
            right = rpc.BIND_ACK if d["ptype"] == rpc.BIND else rpc.ALTER_CONTEXT_RESP
            res = [(0, 0, rpc.NDR64)] + [(3, 3, refdc.NIL)] * (len(d["contexts"]) - 1)
            a = d["auth"]
            auth = None if a is None else dict(type=a["type"], level=a["level"], ctx=a["ctx"], token=b"SRV-135")
            return rpc.enc_ack_like(right, 3 | (d["flags"] & rpc.PFC_SIGN), d["call_id"], res, auth, b"135\x00" if d["ptype"] == rpc.BIND else b"")
        if d["ptype"] == rpc.REQUEST and getattr(self, "isd_bound", False):
            self.dc.rogue_saw_request = d
            from ref import dtyp as _d

            return rpc.enc_response(d["call_id"], d["ctx_id"], evil_stub(self.dc.rogue_st, "other", self.dc.rogue_op, _d.target_sd(_d.parse_sid_string(SID))))
        return super().on_pdu(raw)


class RogueDC(refdc.DC):
    def connect(self, host, port):
        if self.rogue_mode == "port135" and port == 135:
            c = Rogue135(self, "epm", host, port)
            self.conns.append(c)
            return c
        if port == self.isd_port:
            c = RogueConn(self, self.rogue_mode, self.rogue_st)
            self.conns.append(c)
            return c
        return super().connect(host, port)


def run_rogue(seed: int, op: str, api: str, mode: str, sec: str, acc) -> None:
    import dpapi_ng

    st = setup(seed)
    dc = RogueDC([st["rk"]], now=NOW, isd_port=135 if mode == "port135" else 49664)
    dc.rogue_mode, dc.rogue_st, dc.rogue_op, dc.rogue_saw_request = mode.split("+")[0] if not mode.endswith("+keep-trailer") else mode, st, op, None
    case = ["rogue", op, api, mode, sec]
    import contextlib

    user, pw = (secctx.NTLM_USER, secctx.NTLM_PASS) if sec == "ntlm" else ("u", "p")
    kw = dict(server="dc", username=user, password=pw, auth_protocol="ntlm")
    legs = 2 if sec == "scripted2" else 1
    cm = contextlib.nullcontext() if sec == "ntlm" else secctx.scripted_client(lambda u, p, **k: secctx.ScriptedContext([b"C%d" % i for i in range(legs)], 16, complete_after=legs))
    with transport.network(dc), cm:
        try:
            if op == "unprotect":
                f = dpapi_ng.ncrypt_unprotect_secret if api == "sync" else dpapi_ng.async_ncrypt_unprotect_secret
                r = f(st["blob"], **kw)
            else:
                f = dpapi_ng.ncrypt_protect_secret if api == "sync" else dpapi_ng.async_ncrypt_protect_secret
                r = f(PT, SID, **kw)
            v = r if api == "sync" else vloop.run(r)
            status = "ok"
        except (transport.BlocksForever, transport.Spin, vloop.Deadlock) as e:
            status, v = "blocked", repr(e)
        except Exception as e:  # noqa: BLE001
            status, v = "exc", type(e).__name__
    acc.nt(("rogue", op, api, mode, sec))
    req = dc.rogue_saw_request
    if req is not None and (req["auth"] is None or req["auth"]["level"] != 6):
        acc.violate("rogue.request-sent-unsealed", case, {"auth": None if req["auth"] is None else req["auth"]["level"]}, size=len(mode))
    if status == "ok":
        detail = {"returned": repr(bytes(v))[:60]}
        if op == "protect":
            for who in ("rk", "evil_other"):
                try:
                    cms.ref_decrypt(st[who], bytes(v))
                    detail["opens_with"] = who
                except Exception:  # noqa: BLE001
                    pass
        acc.violate("rogue.accepted", case, detail, size=len(mode))
    else:
        acc.outcome("rogue-rejected")


def shards(tier: str, seed: int):
    out = [["rogue"], ["stub-shapes"], ["overlap"], ["rpc-replay"], ["protocol-names"], ["lifecycle"]]
    for api in ("sync", "async"):
        for sg in (True, False):
            for part in range(4):
                out.append(["rpc", api, sg, part, 4])
    combos = [("unprotect", "sync", True), ("protect", "sync", True), ("protect", "sync", False), ("unprotect", "async", True)]
    if tier == "thorough":
        combos = [(op, api, sg) for op in ("unprotect", "protect") for api in ("sync", "async") for sg in (True, False)]
    for op, api, sg in combos:
        for part in range(8 if tier == "quick" else 16):
            out.append(["alts", op, api, sg, part, 8 if tier == "quick" else 16])
    out.append(["replay"])
    return out


def run_shard(shard, tier, seed, acc) -> None:
    worker_init()
    if shard[0] == "protocol-names":
        acc.ev(run_protocol_names(seed, acc))
        acc.sample({"auth_protocol spellings": PROTO_SPELLINGS})
        return
    if shard[0] == "lifecycle":
        n = run_lifecycle(seed, acc)
        acc.ev(n)
        acc.states += n
        acc.transitions += n * 3
        acc.sample({"lifecycle": ["authentication provider of a finished connection handed to a new client whose peer is an impostor", "close() from another task while a request is in flight, unsealed reply"]})
        return
    if shard[0] == "rpc-replay":
        acc.ev(run_rpc_replay(seed, acc))
        acc.sample({"several sealed requests on one connection": "a later reply replaced by the recorded reply to an earlier one"})
        return
    if shard[0] == "overlap":
        acc.ev(run_overlap(seed, acc))
        acc.sample({"two async calls in flight": "the first GetKey reply is replaced by an unsealed one while the other call runs", "deviation_bound": 2})
        return
    if shard[0] == "stub-shapes":
        acc.ev(run_stub_shapes(seed, acc))
        acc.sample({"request stub lengths": [0, 1, 15, 16, 17], "verification trailer": ["off", "isd"], "reply": ["genuine", "trailer stripped", "body flip", "signature flip"]})
        return
    if shard[0] == "rogue":
        n = 0
        for op in ("protect", "unprotect"):
            for api in ("sync", "async"):
                for mode in ("no-trailer", "empty-token", "garbage-token", "echo-token", "no-trailer+keep-trailer", "empty-token+keep-trailer", "port135", "level0", "level1", "level2", "level3", "level4", "level5", "level7"):
                    for sec in ("scripted", "scripted2", "ntlm"):
                        run_rogue(seed, op, api, mode, sec, acc)
                        n += 1
        acc.ev(n)
        acc.sample({"rogue peer": "handshake replies without / with empty / garbage / echoed token / a weaker protection level (0-5, 7) in the ack trailer, then a cleartext GetKey reply with its own envelope"})
        return
    if shard[0] == "rpc":
        _, api, sg, part, nparts = shard
        st = setup(seed)
        probe: t.Dict[str, t.Any] = {}
        dc0 = refdc.DC([st["rk"]], now=NOW, sec="scripted", header_sign=sg)
        run_rpc_level(seed, api, sg, None, "genuine", acc)
        # sizes of the scripted exchange: body = GetKey reply for (361,3,5), 16-byte signature
        from ref import dtyp as _d

        envb = gkdi.pack_envelope(gkdi.server_envelope(st["rk"], _d.target_sd(_d.parse_sid_string(SID)), 361, 3, 5, domain="domain.test", forest="domain.test"))
        plain = ndr64.getkey_response(envb, 0)
        body_len = len(plain) + (-len(plain) % 16)
        alts = alterations("thorough", 24 + body_len + 8 + 16, body_len, sg)
        n = 1
        for i, (name, desc) in enumerate(alts):
            if i % nparts != part or acc.too_many() or desc[0] in ("integrity", "otherctx"):
                continue
            run_rpc_level(seed, api, sg, desc, name, acc)
            n += 1
        acc.ev(n)
        acc.sample({"level": "RPC client (scripted security context)", "api": api, "header_signing": sg, "alterations": len(alts)})
        return
    if shard[0] == "alts":
        _, op, api, sg, part, nparts = shard
        status, v, seen = run_api(seed, op, api, sg, None)  # genuine run: learn the sizes
        if status != "ok":
            acc.violate("genuine.rejected", ["alt", op, api, sg, "genuine"], {"value": repr(v)})
            acc.ev()
            return
        alts = alterations(tier, len(seen["sealed"]), len(seen["info"]["body"]), sg)
        n = 0
        if part == 0:
            judge(seed, op, api, sg, "genuine", None, acc)
            n += 1
        for i, (name, desc) in enumerate(alts):
            if i % nparts != part or acc.too_many():
                continue
            judge(seed, op, api, sg, name, desc, acc)
            n += 1
        acc.ev(n)
        acc.sample({"operation": op, "api": api, "header_signing": sg, "reply_bytes": len(seen["sealed"]), "alterations": len(alts), "example": alts[(part * 37) % len(alts)][0]})
    else:
        for api in ("sync",):
            for sg in (True, False):
                run_replay_attack(seed, api, sg, acc)
                acc.ev()


def replay(case, seed, acc) -> None:
    worker_init()
    acc.ev()
    if case[0] == "rogue":
        run_rogue(seed, case[1], case[2], case[3], case[4], acc)
        return
    if case[0] == "protocol-name":
        run_protocol_names(seed, acc)
        for k in list(acc.violations):
            acc.violations[k] = [e for e in acc.violations[k] if e["case"] == case]
            if not acc.violations[k]:
                del acc.violations[k]
        acc.violation_count = sum(len(v) for v in acc.violations.values())
        return
    if case[0] == "lifecycle":
        run_lifecycle(seed, acc)
        for kk in list(acc.violations):
            acc.violations[kk] = [e for e in acc.violations[kk] if e["case"] == case]
            if not acc.violations[kk]:
                del acc.violations[kk]
        acc.violation_count = sum(len(v) for v in acc.violations.values())
        acc.ev()
        return
    if case[0] == "rpc-replay":
        run_rpc_replay(seed, acc)
        for k in list(acc.violations):
            acc.violations[k] = [e for e in acc.violations[k] if e["case"][:6] == case[:6]]
            if not acc.violations[k]:
                del acc.violations[k]
        acc.violation_count = sum(len(v) for v in acc.violations.values())
        return
    if case[0] == "overlap":
        run_overlap(seed, acc)
        for k in list(acc.violations):
            acc.violations[k] = [e for e in acc.violations[k] if e["case"][:5] == case[:5]]
            if not acc.violations[k]:
                del acc.violations[k]
        acc.violation_count = sum(len(v) for v in acc.violations.values())
        return
    if case[0] == "stub-shape":
        run_stub_shapes(seed, acc)
        for k in list(acc.violations):
            acc.violations[k] = [e for e in acc.violations[k] if e["case"] == case]
            if not acc.violations[k]:
                del acc.violations[k]
        acc.violation_count = sum(len(v) for v in acc.violations.values())
        return
    if case[0] == "rpc":
        _, api, sg, name = case
        for n2, desc in [("genuine", None)] + alterations("thorough", 24 + 4096, 4096, sg):
            if n2 == name:
                # sizes are recomputed exactly as in the shard
                st = setup(seed)
                from ref import dtyp as _d

                envb = gkdi.pack_envelope(gkdi.server_envelope(st["rk"], _d.target_sd(_d.parse_sid_string(SID)), 361, 3, 5, domain="domain.test", forest="domain.test"))
                plain = ndr64.getkey_response(envb, 0)
                body_len = len(plain) + (-len(plain) % 16)
                for n3, d3 in [("genuine", None)] + alterations("thorough", 24 + body_len + 8 + 16, body_len, sg):
                    if n3 == name:
                        run_rpc_level(seed, api, sg, d3, name, acc)
                        return
        return
    if case[0] == "replay":
        run_replay_attack(seed, case[1], case[2], acc)
        return
    _, op, api, sg, name = case
    if name == "genuine":
        judge(seed, op, api, sg, name, None, acc)
        return
    status, v, seen = run_api(seed, op, api, sg, None)
    for tier in ("quick", "thorough"):
        for n2, desc in alterations(tier, len(seen["sealed"]), len(seen["info"]["body"]), sg):
            if n2 == name:
                judge(seed, op, api, sg, name, desc, acc)
                return


def calibrate() -> None:
    from mc.runner import HarnessError

    try:
        cms.calibrate()
    except AssertionError as e:
        raise HarnessError(f"calibration failed: {e!r}") from e


def finish(tier, seed, merged) -> None:
    from mc.runner import Vacuous

    if not any(k.startswith("rejected:") for k in merged.outcomes) and not merged.violation_count:
        raise Vacuous("no alteration was rejected - tampering did not reach the client")
