"""C08 — SID and target security descriptor bytes follow MS-DTYP for every SID."""
from __future__ import annotations

import typing as t

from ref import dtyp

ID = "C08"
LEVEL = "exploration"
RULE = (
    "complete grid: n=1..15 sub-authorities x revision R x authority A in {0,1,5,255,256,2^32-1,2^32,2^48-1} x sub-authority patterns "
    "(each position in turn set to each of {0,1,2^31,2^32-1}, plus 4 constant patterns); every SID's target SD must equal the independent "
    "MS-DTYP builder and parse back (offsets/sizes/counts/tiling), and distinct SIDs must give distinct SDs (set cardinality). "
    "Near-miss strings (count 0/16, 2^32/2^48/2^64, 2-digit revision, newline/space/tab, signs, empty parts, case, prefix, non-ASCII digits, NUL, hex) "
    "applied at every field position of three base SIDs must raise ValueError, and the well-formed SID converted right after each rejected string must still be exact. Non-trivial: the real builder returned bytes (grid) / the real "
    "parser was given the string (near-miss); distinct by SID string."
    ' Also well-formed SID strings of EVERY length 7..170 through the descriptor codec and through protect -> blob -> unprotect (sync and async).'
)
ASSUME = ["ref/dtyp.py calibrated on the real SD in tests/data/seed_key.json", "leading zeros are neither demanded nor forbidden (either rejection or the numerically equal SID is accepted)"]
BOUND = {"quick": "R in {0,1,9}, n in {1,2,5,14,15}", "thorough": "R in 0..9, n in 1..15"}

AUTHS = [0, 1, 5, 255, 256, 2**32 - 1, 2**32, 2**48 - 1]
SUBV = [0, 1, 2**31, 2**32 - 1]
DEFAULT = 21


def patterns(n: int) -> t.Iterator[t.Tuple[int, ...]]:
    for c in (0, DEFAULT, 2**31, 2**32 - 1):
        yield (c,) * n
    for i in range(n):
        for v in SUBV:
            p = [DEFAULT + j for j in range(n)]
            p[i] = v
            yield tuple(p)


def shards(tier: str, seed: int):
    rs = [0, 1, 9] if tier == "quick" else list(range(10))
    ns = [1, 2, 5, 14, 15] if tier == "quick" else list(range(1, 16))
    out = [["grid", r, n] for r in rs for n in ns]
    out.append(["near"])
    out.append(["lengths"])
    return out


def sid_of_length(n: int) -> str:
    """a well-formed SID string of exactly n characters (7 <= n <= 170): 'S-1-5' + up to 15 sub-authorities"""
    body = n - 5
    parts: t.List[str] = []
    while body > 0:
        take = min(11, body)
        if body - take == 1:  # never leave a lone '-'
            take -= 1
        parts.append("-" + "4000000009"[: take - 1])
        body -= take
    s_ = "S-1-5" + "".join(parts)
    assert len(s_) == n and 1 <= len(parts) <= 15, (n, s_)
    return s_


def _sd(s: str) -> bytes:
    from dpapi_ng._blob import ProtectionDescriptor

    return ProtectionDescriptor.parse(s).get_target_sd()


def case_grid(s: str):
    sid = dtyp.parse_sid_string(s)
    try:
        sd = _sd(s)
        # the same SID on its way through a blob: packed by the library, unpacked again, then turned into the SD - the string must survive
        from dpapi_ng._blob import ProtectionDescriptor

        pd = ProtectionDescriptor.parse(s)
        sd_via_blob = ProtectionDescriptor.unpack(bytes(pd.pack())).get_target_sd()
        if bytes(sd_via_blob) != bytes(sd):
            return ("grid.sd-differs-after-pack-unpack", {"sid": s}), None
    except Exception as e:  # noqa: BLE001
        return (f"grid.exc.{type(e).__name__}", {"sid": s, "exc": repr(e)}), None
    why = dtyp.check_target_sd(bytes(sd), sid)
    if why:
        return ("grid.sd", {"sid": s, "why": why, "sd": bytes(sd).hex()}), sd
    return None, sd


BASES = ["S-1-5-18", "S-1-5-21-2185496602-3367037166-1388177638-1103", "S-1-0-" + "-".join(str(7 + i) for i in range(15))]
NONASCII = {"arabic-indic": "٥", "fullwidth": "５", "devanagari": "५", "superscript": "²"}


def near_misses() -> t.List[t.Tuple[str, str]]:
    out: t.List[t.Tuple[str, str]] = []
    out += [("count0", "S-1-5"), ("count0-dash", "S-1-5-"), ("count16", "S-1-5-" + "-".join(["1"] * 16)), ("count17", "S-1-5-" + "-".join(["1"] * 17))]
    out += [("rev2digit", "S-10-5-18"), ("rev3digit", "S-100-5-18"), ("auth2^48", f"S-1-{2**48}-18"), ("auth2^64", f"S-1-{2**64}-18"), ("auth2^48+1", f"S-1-{2**48+1}-1-2")]
    out += [("lower", "s-1-5-18"), ("noprefix", "1-5-18"), ("empty", ""), ("justS", "S"), ("S-", "S-"), ("doubleS", "SS-1-5-18"), ("sddl-alias", "SY"), ("hex-auth", "S-1-0x5-18")]
    for b in BASES:
        for ws_name, ws in (("bom", "\ufeff"), ("zwsp", "\u200b"), ("ls", "\u2028"), ("bom-bytes-as-latin1", "\u00ef\u00bb\u00bf")):
            out.append((f"lead-{ws_name}", ws + b))
            out.append((f"trail-{ws_name}", b + ws))
    for b in BASES:
        parts = b.split("-")
        for ws_name, ws in (("nl", "\n"), ("crlf", "\r\n"), ("space", " "), ("tab", "\t"), ("nul", "\0"), ("vt", "\x0b"), ("nbsp", " ")):
            out.append((f"trail-{ws_name}", b + ws))
            out.append((f"lead-{ws_name}", ws + b))
            for i in range(1, len(parts)):
                q = list(parts)
                q[i] = q[i] + ws
                if i < len(parts) - 1:
                    out.append((f"inner-after-{ws_name}", "-".join(q)))
                q = list(parts)
                q[i] = ws + q[i]
                out.append((f"inner-before-{ws_name}", "-".join(q)))
        for i in range(1, len(parts)):
            for name, f in (
                ("plus", lambda x: "+" + x),
                ("minus", lambda x: "-" + x),
                ("emptypart", lambda x: ""),
                ("hex", lambda x: "0x" + x),
                ("underscore", lambda x: x + "_0" if len(x) else x),
                ("dot", lambda x: x + ".0"),
                ("exp", lambda x: x + "e1"),
            ):
                q = list(parts)
                q[i] = f(q[i])
                out.append((f"{name}@{i}", "-".join(q)))
            for name, ch in NONASCII.items():
                q = list(parts)
                q[i] = ch if i == 1 else q[i] + ch
                out.append((f"digit-{name}@{i}", "-".join(q)))
            if i >= 3:
                for name, v in (("sub2^32", 2**32), ("sub2^64", 2**64), ("sub2^32+5", 2**32 + 5)):
                    q = list(parts)
                    q[i] = str(v)
                    out.append((f"{name}@{i}", "-".join(q)))
        out.append(("trailing-dash", b + "-"))
        # strings that EXTEND a valid SID (which the harness converts right before): one more part than allowed, parts glued on
        if len(parts) - 3 == 15:
            out.append(("valid15+1", b + "-5"))
            out.append(("valid15+2", b + "-5-6"))
        out.append(("valid+garbage", b + "x"))
        out.append(("valid+dot", b + ".1"))
        out.append(("S-prefix-twice", "S-" + b))
    # dedupe, drop anything the reference grammar accepts (none should be)
    seen = set()
    res = []
    for name, s in out:
        if s in seen:
            continue
        seen.add(s)
        try:
            dtyp.parse_sid_string(s)
            raise AssertionError(f"near-miss {s!r} is accepted by the reference grammar")
        except dtyp.DtypError:
            res.append((name, s))
    return res


def leading_zero_cases() -> t.List[str]:
    return ["S-1-05-18", "S-1-5-018", "S-1-5-21-0000000001-2", "S-1-000-0"]


_api: t.Dict[str, t.Any] = {}


def case_near(name: str, s: str):
    """the string is offered three times, through the descriptor API and through sid_to_bytes: a rejection must be repeatable"""
    from dpapi_ng._security_descriptor import sid_to_bytes

    def _via_unpack(x: str) -> bytes:
        # the string as it arrives inside a blob: the packed protection descriptor decoded by the library, then turned into the SD
        from dpapi_ng._blob import ProtectionDescriptor

        from ref import cms

        return ProtectionDescriptor.unpack(cms.protection_descriptor(cms.OID_SID, "SID", x)).get_target_sd()

    def _via_protect(x: str, flavour: str = "sync") -> bytes:
        # the string as the application hands it to the public protect API (root key in the cache, so nothing else is needed)
        import dpapi_ng

        from env import seams

        if "rk" not in _api:
            d_ = seams.Drbg(("C08api",))
            _api["rk"] = seams.make_root(d_, "SHA256")
            _api["cache"] = seams.make_cache(_api["rk"])
        with seams.clock(134270280000000777):
            if flavour == "sync":
                return bytes(dpapi_ng.ncrypt_protect_secret(b"x", x, root_key_identifier=_api["rk"].rkid, cache=_api["cache"]))
            from mc import vloop

            return bytes(vloop.run(dpapi_ng.async_ncrypt_protect_secret(b"x", x, root_key_identifier=_api["rk"].rkid, cache=_api["cache"])))

    for attempt, fn in enumerate((_sd, sid_to_bytes, _sd, _via_unpack, _via_protect, lambda x: _via_protect(x, "async"))):
        try:
            sd = fn(s)
        except ValueError:
            continue
        except Exception as e:  # noqa: BLE001
            return (f"near.exc.{type(e).__name__}", {"kind": name, "string": s, "exc": repr(e), "attempt": attempt})
        return ("near.accepted", {"kind": name, "string": s, "sd": bytes(sd).hex(), "attempt": attempt})
    return None


def run_shard(shard, tier, seed, acc) -> None:
    if shard[0] == "lengths":
        # well-formed SID strings of EVERY length 7..170 through the descriptor codec and through protect -> blob -> unprotect: the target SD
        # is the reference one and the blob carries the string unchanged (every length form of the DER headers around it is met)
        import dpapi_ng

        from env import seams
        from ref import cms

        d_ = seams.Drbg(("C08len",))
        rk = seams.make_root(d_, "SHA256")
        cache = seams.make_cache(rk)
        for n in range(7, 171):
            sid_s = sid_of_length(n)
            acc.ev()
            acc.nt(("len", n))
            v, sd = case_grid(sid_s)
            if v:
                acc.violate("lengths." + v[0], ["lengths", n], v[1], size=n)
                continue
            for api in ("sync", "async"):
                try:
                    with seams.clock(134270280000000777):
                        if api == "sync":
                            blob = bytes(dpapi_ng.ncrypt_protect_secret(b"len", sid_s, root_key_identifier=rk.rkid, cache=cache))
                            back = bytes(dpapi_ng.ncrypt_unprotect_secret(blob, cache=cache))
                        else:
                            from mc import vloop

                            blob = bytes(vloop.run(dpapi_ng.async_ncrypt_protect_secret(b"len", sid_s, root_key_identifier=rk.rkid, cache=cache)))
                            back = bytes(vloop.run(dpapi_ng.async_ncrypt_unprotect_secret(blob, cache=cache)))
                    stored = cms.decode(blob).sid
                    if back != b"len" or stored != sid_s or cms.ref_decrypt(rk, blob) != b"len":
                        acc.violate("lengths.blob", ["lengths", n, api], {"sid": sid_s, "stored": stored, "roundtrip": back == b"len"}, size=n)
                    else:
                        acc.outcome("lengths-ok")
                except Exception as e:  # noqa: BLE001
                    acc.violate(f"lengths.exc.{type(e).__name__}", ["lengths", n, api], {"sid": sid_s, "exc": repr(e)[:200]}, size=n)
        acc.sample({"SID strings of every length": [7, 170], "example": sid_of_length(128)})
        return
    if shard[0] == "grid":
        _, r, n = shard
        for a in AUTHS:
            for p in patterns(n):
                s = f"S-{r}-{a}" + "".join(f"-{x}" for x in p)
                v, sd = case_grid(s)
                acc.ev()
                acc.set_add("sid", s)
                if sd is not None:
                    acc.set_add("sd", bytes(sd))
                    acc.nt(s)
                if v:
                    acc.violate(v[0], ["grid", s], v[1])
                    acc.outcome("viol:" + v[0])
                else:
                    acc.outcome("grid-ok")
        acc.sample({"sid": s, "sd": bytes(sd).hex() if sd is not None else None})
    else:
        probe_sids = ["S-1-5-21-1-2-3-1104", "S-1-1-0", "S-1-5-32-544"]
        for b_ in BASES:
            pv, _ = case_grid(b_)  # the valid bases are converted first: anything remembered about them must not help a near-miss through
            if pv:
                acc.violate(pv[0], ["grid", b_], pv[1])
        for i_, (name, s) in enumerate(near_misses()):
            v = case_near(name, s)
            # a rejected string must leave no trace: the next well-formed SID still converts exactly
            pv, _ = case_grid(probe_sids[i_ % 3])
            if pv:
                acc.violate("after-near-miss." + pv[0], ["near-then-valid", name, s, probe_sids[i_ % 3]], pv[1])
            acc.ev()
            acc.nt(("near", s))
            if v:
                acc.violate(v[0] + ":" + name.split("@")[0], ["near", name, s], v[1])
                acc.outcome("viol:" + v[0])
            else:
                acc.outcome("near-rejected")
        acc.sample({"near_miss": "S-1-5-18\\n"})
        for s in leading_zero_cases():
            acc.ev()
            acc.nt(("lz", s))
            try:
                sd = _sd(s)
            except ValueError:
                acc.outcome("leading-zero-rejected")
                continue
            except Exception as e:  # noqa: BLE001
                acc.violate(f"lz.exc.{type(e).__name__}", ["lz", s], {"exc": repr(e)})
                continue
            parts = s.split("-")
            canon = "S-" + "-".join(str(int(x)) for x in parts[1:])
            why = dtyp.check_target_sd(bytes(sd), dtyp.parse_sid_string(canon))
            if why:
                acc.violate("lz.sd", ["lz", s], {"why": why})
            acc.outcome("leading-zero-normalised")


def replay(case, seed, acc) -> None:
    acc.ev()
    if case[0] == "grid":
        v, _ = case_grid(case[1])
    elif case[0] == "near-then-valid":
        case_near(case[1], case[2])
        v, _ = case_grid(case[3])
        if v:
            v = ("after-near-miss." + v[0], v[1])
    elif case[0] == "lengths":
        run_shard(["lengths"], "quick", seed, acc)
        for kk in list(acc.violations):
            acc.violations[kk] = [e for e in acc.violations[kk] if e["case"] == case]
            if not acc.violations[kk]:
                del acc.violations[kk]
        acc.violation_count = sum(len(x) for x in acc.violations.values())
        return
    elif case[0] == "near":
        v = case_near(case[1], case[2])
        if v:
            v = (v[0] + ":" + case[1].split("@")[0], v[1])
    else:
        return
    if v:
        acc.violate(v[0], case, v[1])


def calibrate() -> None:
    from mc.runner import HarnessError

    try:
        dtyp.calibrate()
    except AssertionError as e:
        raise HarnessError(f"dtyp calibration failed: {e!r}") from e


def finish(tier, seed, merged) -> None:
    sids, sds = len(merged.sets.get("sid", ())), len(merged.sets.get("sd", ()))
    grid_viol = any(k.startswith("grid") for k in merged.violations)
    if sids != sds and not grid_viol:
        merged.violate("grid.distinct", ["distinct"], {"distinct_sids": sids, "distinct_sds": sds})
