"""Shared by C04 and C05: base blobs, offline caches, and the exhaustive mutation enumerations."""
from __future__ import annotations

import struct
import typing as t

from env import seams
from ref import cms, der, gkdi

SID = "S-1-5-21-2185496602-3367037166-1388177638-1103"
HASHES = ["SHA512", "SHA256", "SHA1", "SHA384"]
MODES = ["nonce", "DH", "ECDH_P256", "ECDH_P384"]
POS = (361, 17, 13)


class Base(t.NamedTuple):
    bid: str
    rk: gkdi.RootKey
    blob: bytes
    plaintext: bytes


def base_blob(seed: int, h: str, mode: str, in_env: bool, long_pt: bool = False, nest: bool = False) -> Base:
    d = seams.Drbg(("blobmut", seed, h, mode))
    alg = "DH" if mode == "nonce" else mode
    rk = seams.make_root(d, h, alg)
    pt = d.bytes(300) if long_pt else b"secret-" + d.bytes(4)
    if nest:
        # a secret that is itself a DPAPI-NG blob the same root key opens (a secret protected twice), inner layout opposite to the outer one
        pt = base_blob(seed, h, mode, not in_env).blob
    if mode == "nonce":
        blob = cms.ref_encrypt(rk, SID, pt, POS, cek=d.bytes(32), gcm_nonce_=d.bytes(12), key_nonce=d.bytes(32), domain="domain.test", forest="forest.test", in_envelope=in_env)
    else:
        from ref import ec

        if alg == "DH":
            eph = int.from_bytes(d.bytes(64), "big")
        else:
            c = ec.CURVES[alg.split("_")[1]]
            eph = 1 + int.from_bytes(d.bytes(c.size), "big") % (c.n - 1)
        blob = cms.ref_encrypt(rk, SID, pt, POS, cek=d.bytes(32), gcm_nonce_=d.bytes(12), ephemeral=eph, domain="domain.test", forest="forest.test", in_envelope=in_env)
    return Base(f"{h}/{mode}/{'env' if in_env else 'trail'}{'/long' if long_pt else ''}{'/nest' if nest else ''}", rk, blob, pt)


def bases(seed: int, tier: str, with_dh: bool = False) -> t.List[Base]:
    if tier == "quick":
        combos = [("SHA512", "nonce", True), ("SHA512", "nonce", False), ("SHA256", "ECDH_P256", True), ("SHA256", "ECDH_P256", False)] + ([("SHA1", "DH", True)] if with_dh else [])
    else:
        combos = [(h, m, e) for h in HASHES for m in MODES for e in (True, False)]
    out = [base_blob(seed, h, m, e) for h, m, e in combos]
    out.append(base_blob(seed, "SHA384", "nonce", True, long_pt=True))
    return out


def base_by_id(seed: int, bid: str) -> Base:
    parts = bid.split("/")
    return base_blob(seed, parts[0], parts[1], parts[2] == "env", "long" in parts[3:], "nest" in parts[3:])


def nested_bases(seed: int, tier: str) -> t.List[Base]:
    """bases whose plaintext is another blob of the same root key (C04: no unauthenticated field may steer a second decryption)"""
    if tier == "quick":
        combos = [("SHA512", "nonce", True), ("SHA512", "nonce", False), ("SHA256", "ECDH_P256", True)]
    else:
        combos = [(h, m, (i + j) % 2 == 0) for i, h in enumerate(HASHES) for j, m in enumerate(MODES)]
    return [base_blob(seed, h, m, e, nest=True) for h, m, e in combos]


# -- field map -----------------------------------------------------------------------------------------------


def field_map(blob: bytes) -> t.List[t.Tuple[int, int, str]]:
    """[(start, end, name)] covering every byte of the blob"""
    root = der.parse_one(blob)
    spans: t.List[t.Tuple[int, int, str]] = []
    names = {
        (0,): "oid:envelopedData", (1, 0, 0): "EnvelopedData.version", (1, 0, 1, 0, 0): "kekri.version", (1, 0, 1, 0, 1, 0): "keyIdentifier",
        (1, 0, 1, 0, 1, 1, 0): "oid:ms-software", (1, 0, 1, 0, 1, 1, 1, 0): "oid:sid-descriptor", (1, 0, 1, 0, 1, 1, 1, 1, 0, 0, 0): "utf8:'SID'",
        (1, 0, 1, 0, 1, 1, 1, 1, 0, 0, 1): "utf8:sid", (1, 0, 1, 0, 2, 0): "oid:aes256-wrap", (1, 0, 1, 0, 3): "wrapped-cek", (1, 0, 2, 0): "oid:data",
        (1, 0, 2, 1, 0): "oid:aes256-gcm", (1, 0, 2, 1, 1, 0): "gcm-nonce", (1, 0, 2, 1, 1, 1): "gcm-icvlen", (1, 0, 2, 2): "encrypted-content",
    }
    for path, n in der.walk(root):
        spans.append((n.start, n.start + n.hdr, "hdr:" + names.get(path, "/".join(map(str, path)) or "ContentInfo")))
        if not n.constructed:
            nm = names.get(path, "/".join(map(str, path)))
            if nm == "keyIdentifier":
                o = n.start + n.hdr
                kid = gkdi.unpack_keyid(n.content)
                cuts = [("kid.version", 4), ("kid.magic", 4), ("kid.flags", 4), ("kid.l0", 4), ("kid.l1", 4), ("kid.l2", 4), ("kid.rootkeyid", 16), ("kid.cbKeyInfo", 4), ("kid.cbDomain", 4), ("kid.cbForest", 4),
                        ("kid.key_info", len(kid.key_info)), ("kid.domain", 2 * len(kid.domain) + 2), ("kid.forest", 2 * len(kid.forest) + 2)]
                for nm2, ln in cuts:
                    spans.append((o, o + ln, nm2))
                    o += ln
            elif nm == "encrypted-content":
                spans.append((n.start + n.hdr, n.end - 16, "ciphertext"))
                spans.append((n.end - 16, n.end, "gcm-tag"))
            else:
                spans.append((n.start + n.hdr, n.end, nm))
    if root.end < len(blob):
        spans.append((root.end, len(blob) - 16, "trailing-ciphertext"))
        spans.append((len(blob) - 16, len(blob), "trailing-gcm-tag"))
    return sorted(s for s in spans if s[1] > s[0])


def field_of(fm, off: int) -> str:
    for s, e, nm in fm:
        if s <= off < e:
            return nm
    return "?"


def header_offsets(blob: bytes) -> t.List[int]:
    """offsets of every TLV header byte and of every key-identifier header field byte"""
    fm = field_map(blob)
    out = []
    for s, e, nm in fm:
        if nm.startswith("hdr:") or (nm.startswith("kid.") and nm not in ("kid.key_info", "kid.domain", "kid.forest", "kid.rootkeyid")):
            out.extend(range(s, e))
    return out


SUBST_BYTES = [0x00, 0x01, 0x7F, 0x80, 0x81, 0xFF]


def simple_mutations(blob: bytes) -> t.Iterator[t.Tuple[t.List[t.Any], bytes]]:
    """(label, mutated bytes): flips, truncations, deletions, insertions, header-byte substitutions"""
    n = len(blob)
    for bit in range(n * 8):
        b = bytearray(blob)
        b[bit // 8] ^= 1 << (bit % 8)
        yield ["flip", bit], bytes(b)
    for ln in range(n):
        yield ["trunc", ln], blob[:ln]
    for i in range(n):
        yield ["del", i], blob[:i] + blob[i + 1 :]
    for i in range(n + 1):
        for v in (0x00, 0xFF):
            yield ["ins", i, v], blob[:i] + bytes([v]) + blob[i:]
    for off in header_offsets(blob):
        for v in SUBST_BYTES:
            if blob[off] != v:
                yield ["sub", off, v], blob[:off] + bytes([v]) + blob[off + 1 :]


def apply_simple(blob: bytes, label: t.Sequence[t.Any]) -> bytes:
    k = label[0]
    if k == "flip":
        b = bytearray(blob)
        b[label[1] // 8] ^= 1 << (label[1] % 8)
        return bytes(b)
    if k == "flip2":
        b = bytearray(blob)
        for bit in label[1:3]:
            b[bit // 8] ^= 1 << (bit % 8)
        return bytes(b)
    if k == "trunc":
        return blob[: label[1]]
    if k == "del":
        return blob[: label[1]] + blob[label[1] + 1 :]
    if k == "ins":
        return blob[: label[1]] + bytes([label[2]]) + blob[label[1] :]
    if k == "sub":
        return blob[: label[1]] + bytes([label[2]]) + blob[label[1] + 1 :]
    raise AssertionError(label)


# -- structure-aware DER mutations ------------------------------------------------------------------------------------


def rebuild(node: der.Node, blob: bytes, path: t.Tuple[int, ...], target: t.Tuple[int, ...], replacement: bytes) -> bytes:
    """re-serialise the tree with the node at `target` replaced by raw bytes; enclosing lengths stay consistent"""
    if path == target:
        return replacement
    if node.children is None or target[: len(path)] != path:
        return blob[node.start : node.end]
    content = b"".join(rebuild(c, blob, path + (i,), target, replacement) for i, c in enumerate(node.children))
    return der.enc_ident(node.cls, node.constructed, node.number) + der.enc_len(len(content)) + content


def der_mutations(blob: bytes) -> t.Iterator[t.Tuple[t.List[t.Any], bytes]]:
    root = der.parse_one(blob)
    trailing = blob[root.end :]
    for path, n in der.walk(root):
        ident = der.enc_ident(n.cls, n.constructed, n.number)
        full = blob[n.start : n.end]
        variants: t.List[t.Tuple[str, bytes]] = []
        variants.append(("empty", ident + b"\x00"))
        L = len(n.content)
        for name, lenbytes in (
            ("len0", b"\x00"), ("len1", b"\x01"), ("len-1", der.enc_len(max(L - 1, 0))), ("len+1", der.enc_len(L + 1)), ("len2^16", b"\x83\x01\x00\x00"),
            ("len2^32-1", b"\x84\xff\xff\xff\xff"), ("len2^64", b"\x89\x01" + b"\x00" * 8), ("len127octets", b"\xff" + b"\x01" * 127), ("len-nonminimal", b"\x84" + L.to_bytes(4, "big")),
            ("len-indefinite", b"\x80"), ("len-ff", b"\xff"), ("len-8f-short", b"\x8f\x01"),
        ):
            variants.append((name, ident + lenbytes + n.content))
        for tagnum in list(range(0, 37)) + [127]:
            if tagnum != n.number or n.cls != 0:
                variants.append((f"tag-u{tagnum}", der.enc_ident(0, n.constructed, tagnum) + der.enc_len(L) + n.content))
        for cls in (0, 1, 2, 3):
            if cls != n.cls:
                variants.append((f"class{cls}", der.enc_ident(cls, n.constructed, n.number) + der.enc_len(L) + n.content))
        variants.append(("toggle-constructed", der.enc_ident(n.cls, not n.constructed, n.number) + der.enc_len(L) + n.content))
        variants.append(("hightag", bytes([(n.cls << 6) | (0x20 if n.constructed else 0) | 31]) + der.enc_base128(n.number + 31) + der.enc_len(L) + n.content))
        variants.append(("hightag-truncated", bytes([(n.cls << 6) | 31, 0x81])))
        variants.append(("hightag-endless", bytes([(n.cls << 6) | 31]) + b"\x81" * 40))
        variants.append(("dup", full + full))
        variants.append(("drop", b""))
        for name, rep in variants:
            yield ["der", list(path), name, "consistent"], rebuild(root, blob, (), path, rep) + trailing
            if name.startswith("len") or name in ("empty", "hightag-truncated"):
                yield ["der", list(path), name, "inplace"], blob[: n.start] + rep + blob[n.end :]


def der_mutation_by_label(blob: bytes, label) -> bytes:
    for lab, data in der_mutations(blob):
        if lab == list(label):
            return data
    raise KeyError(label)


# -- key identifier grids -----------------------------------------------------------------------------------------------


def with_keyid(blob: bytes, new_kid: bytes) -> bytes:
    root = der.parse_one(blob)
    path = (1, 0, 1, 0, 1, 0)
    return rebuild(root, blob, (), path, der.enc_octets(new_kid)) + blob[root.end :]


def keyid_mutations(blob: bytes) -> t.Iterator[t.Tuple[t.List[t.Any], bytes]]:
    b = cms.decode(blob, template=False)
    raw = b.keyid
    kid = gkdi.unpack_keyid(raw)

    def put(off: int, v: int) -> bytes:
        return raw[:off] + struct.pack("<I", v & 0xFFFFFFFF) + raw[off + 4 :]

    l0s = [0, 2**31 - 1, 2**31, 2**32 - 1, kid.l0]
    l12 = [0, 31, 32, 2**31, 2**32 - 1]
    for l0 in l0s:
        for l1 in l12:
            for l2 in l12:
                r = put(12, l0)
                r = r[:16] + struct.pack("<II", l1, l2) + r[24:]
                yield ["kid", "pos", l0, l1, l2], with_keyid(blob, r)
    for fl in (0, 1, 2, 3, 2**32 - 1):
        yield ["kid", "flags", fl], with_keyid(blob, put(8, fl))
    for name, off, actual in (("cbKeyInfo", 40, len(kid.key_info)), ("cbDomain", 44, 2 * len(kid.domain) + 2), ("cbForest", 48, 2 * len(kid.forest) + 2)):
        for v in (0, 1, 2, 3, actual - 1, actual + 1, 2**32 - 1):
            yield ["kid", name, v], with_keyid(blob, put(off, v))
    for ver in (0, 2, 2**32 - 1):
        yield ["kid", "version", ver], with_keyid(blob, put(0, ver))
    yield ["kid", "magic", 0], with_keyid(blob, raw[:4] + b"KDSX" + raw[8:])
    yield ["kid", "empty"], with_keyid(blob, b"")
    for cut in (1, 4, 8, 24, 40, 51, 52, 53):
        yield ["kid", "cut", cut], with_keyid(blob, raw[:cut])
    if kid.flags & 1:
        ki = kid.key_info
        base_off = 52

        def with_ki(new: bytes) -> bytes:
            r = raw[:40] + struct.pack("<I", len(new)) + raw[44:52] + new + raw[52 + len(ki) :]
            return with_keyid(blob, r)

        klen = struct.unpack("<I", ki[4:8])[0]
        for v in (0, 1, klen - 1, klen + 1, 2**32 - 1):
            yield ["kid", "ki.key_length", v], with_ki(ki[:4] + struct.pack("<I", v) + ki[8:])
        yield ["kid", "ki.magic"], with_ki(b"XXXX" + ki[4:])
        yield ["kid", "ki.curve-ECK5"], with_ki(b"ECK5" + ki[4:])
        yield ["kid", "ki.offcurve"], with_ki(ki[:-1] + bytes([ki[-1] ^ 1]))
        yield ["kid", "ki.zero-point"], with_ki(ki[:8] + b"\x00" * (len(ki) - 8))
        yield ["kid", "ki.empty"], with_ki(b"")
        yield ["kid", "ki.short"], with_ki(ki[:9])
        yield ["kid", "ki.as-nonce"], with_keyid(blob, put(8, kid.flags & ~1))
        # self-consistent rewrites of the nested public-key structure with another key_length (all lengths agree with each other)
        if ki[:4] == b"DHPB":
            kl0, p0, g0, y0 = gkdi.unpack_dh_key(ki)
            for kl in (1, 2, 128, 255, 257, 512):
                m = 256**kl
                for yv in (y0 % m, 0, 1, 2, (p0 - 1) % m, m - 1):
                    for pv in (p0 % m, m - 1, 0, 1):
                        yield ["kid", "ki.dh-rewrite", kl, str(pv)[:12], str(yv)[:12]], with_ki(gkdi.pack_dh_key(kl, pv, g0 % m, yv))
        else:
            curve, kl0, x0, y0 = gkdi.unpack_ec_key(ki)
            for kl in (1, 16, kl0 - 1, kl0 + 1, 48 if kl0 != 48 else 32, 66):
                m = 256**kl
                yield ["kid", "ki.ec-rewrite", kl], with_ki(gkdi.pack_ec_key(curve, kl, x0 % m, y0 % m))
                yield ["kid", "ki.ec-rewrite-zero", kl], with_ki(gkdi.pack_ec_key(curve, kl, 0, 0))
                # coordinates that really fill the announced length (top octet non-zero): larger than any field element when kl > curve size
                yield ["kid", "ki.ec-rewrite-full", kl], with_ki(gkdi.pack_ec_key(curve, kl, m - 1, m - 1))
                yield ["kid", "ki.ec-rewrite-top", kl], with_ki(gkdi.pack_ec_key(curve, kl, (x0 % (m // 256)) + (m // 256) * 0x5A, (y0 % (m // 256)) + (m // 256) * 0x01))
            for other in ("P256", "P384", "P521"):
                if other != curve:
                    yield ["kid", "ki.ec-other-curve", other], with_ki(gkdi.pack_ec_key(other, kl0, x0, y0))
    else:
        yield ["kid", "nonce-as-pubkey"], with_keyid(blob, put(8, kid.flags | 1))


def keyid_mutation_by_label(blob: bytes, label) -> bytes:
    for lab, data in keyid_mutations(blob):
        if lab == list(label):
            return data
    raise KeyError(label)
