"""C04 — a modified blob never decrypts to different plaintext."""
from __future__ import annotations

import itertools
import typing as t

from checks import blobmut as bm
from env import seams

ID = "C04"
LEVEL = "fault_enumeration"
RULE = (
    "for every base blob (quick: SHA512/nonce and SHA256/P-256 in both layouts + one 300-byte plaintext; thorough: 4 hashes x {nonce,DH,P256,P384} x 2 layouts + the long one) and for nested bases whose secret is itself a blob of the same root key (quick 3, thorough 16; flips, truncations, deletions, insertions, substitutions), exhaustively: "
    "every single-bit flip, every truncation length, deletion of each byte, insertion of 00/FF at each offset, every TLV-header byte and key-identifier header byte replaced by each of "
    "{00,01,7F,80,81,FF}, blobs whose ciphertext is exactly 64 KiB, 1 MiB (thorough: also 2 MiB, 3 MiB, 16 MiB; sparse flips and truncations) (64 KiB: every bit of its headers and of the first/last bytes of the ciphertext, two bits of every 1021st byte, truncations around 4 KiB/64 KiB) through the sync and the async API, and all pairs of flips among {bit 0 of every byte whose flip was harmless} u {first bit of every field}. Algorithm substitution: the content-encryption algorithm identifier replaced by 17 other ciphers / modes x 5 parameter forms, for the IV forms combined with every value of the last / 17th-from-last ciphertext octet. Forgeries that need no secret: key position overwritten with one of 11 positions x 2 L0, wrapped CEK re-wrapped under a KEK derived from one of 7 publicly known byte strings (empty, zeros, the root key id, the key nonce, ...) used as L2 key / L1 key / L0 seed / root key, content re-encrypted (IV kept). The same forgeries against caches with a history (seed keys fetched from the DC; then a protect served from the cache; root key + a protect at (31,31)). Each mutated blob is decrypted by the real unprotect API with an offline "
    "cache holding the right root key (network seams raise). Cross-group forgeries: the CEK of a blob for X re-wrapped under the key a member of another group Y derives (3 groups x 4 positions), judged on caches that handled Y's blobs first (5 histories). Blobs rejected by the authentication checks are decrypted a second time in the same process (a retry must not succeed). Oracle: original plaintext | any exception | needs-network; different bytes is the violation. Distinct by (blob, mutation); non-trivial = the "
    "mutated bytes differ from the original."
    ' Also: public-key blobs under ECDH root keys whose key_info is replaced by a DH key blob with public value 0 / 1 / p-1 (forged for the degenerate shared secret); a reader who is not authorised for the SID (the DC answers with a public-key envelope) offered blobs re-keyed from that public key.'
    ' Also pieces of the blob itself (ciphertext + tag, every DER node, tail, whole blob) appended / inserted behind the envelope / prepended; transplants are judged on a cache that has already opened every genuine blob.'
)
ASSUME = ["offline KeyCache with the matching root key; DNS/socket seams raise NeedsNetwork", "BudgetExceeded / hangs are C05's subject, not C04's"]
BOUND = {"quick": "5 base blobs + 3 nested bases (the secret is itself a blob of the same root key)", "thorough": "33 base blobs + 16 nested bases"}
KINDS = ["flip", "trunc", "del", "ins", "sub"]


def worker_init() -> None:
    seams.block_network()


_hist_cache: t.Dict[str, t.Any] = {"cache": None}


def unprotect(base: bm.Base, data: bytes, api: str = "sync"):
    import copy

    import dpapi_ng

    cache = seams.make_cache(base.rk) if _hist_cache["cache"] is None else copy.deepcopy(_hist_cache["cache"])
    try:
        if api == "async":
            from mc import vloop

            return "ok", vloop.run(dpapi_ng.async_ncrypt_unprotect_secret(data, cache=cache))
        return "ok", dpapi_ng.ncrypt_unprotect_secret(data, cache=cache)
    except seams.NeedsNetwork as e:
        return "net", e
    except Exception as e:  # noqa: BLE001
        return "exc", e


def judge(acc, base: bm.Base, label, data: bytes, fm, api: str = "sync") -> str:
    st, v = unprotect(base, data, api)
    if st == "exc" and type(v).__name__ in ("InvalidTag", "InvalidUnwrap"):
        # a rejected blob must stay rejected: decrypt it again in the same process (retry / second caller / the other API flavour)
        st2, v2 = unprotect(base, data, "async" if api == "sync" else "sync")
        if st2 == "ok":
            st, v = st2, v2
    if st == "ok":
        if bytes(v) != base.plaintext:
            off = label[1] // 8 if label[0] in ("flip", "flip2") else (label[1] if len(label) > 1 and isinstance(label[1], int) else 0)
            acc.violate("different-plaintext", ["mut", base.bid, label, api], {"field": bm.field_of(fm, off), "returned": bytes(v)[:64].hex(), "original": base.plaintext[:64].hex()}, size=len(repr(label)))
            return "DIFFERENT"
        return "same-plaintext"
    if st == "net":
        return "needs-network"
    return "error:" + type(v).__name__


def shards(tier: str, seed: int):
    out = []
    for b in bm.bases(seed, tier):
        for k in KINDS:
            out.append(["simple", b.bid, k])
        out.append(["pairs", b.bid])
    for b in bm.nested_bases(seed, tier):
        for k in KINDS:
            out.append(["simple", b.bid, k])
    for b in bm.bases(seed, tier):
        if "/long" not in b.bid and (tier == "thorough" or "/nonce/" in b.bid):
            out.append(["algsub", b.bid])
        if "/nonce/" in b.bid and "/env" in b.bid and "/long" not in b.bid:
            out.append(["splice", b.bid])
        if "/long" not in b.bid:
            out.append(["selfcopy", b.bid])
        if "/nonce/" in b.bid:
            out.append(["forge", b.bid])
            out.append(["forge-hist", b.bid])
            out.append(["crossgroup", b.bid])
    for h_ in (("SHA1",) if tier == "quick" else ("SHA1", "SHA256", "SHA384", "SHA512")):
        for env_ in (True, False):
            out.append(["dhwindow", h_, env_])
    for h_ in (("SHA256",) if tier == "quick" else ("SHA1", "SHA256", "SHA384", "SHA512")):
        for alg_ in ("ECDH_P256", "ECDH_P384"):
            out.append(["algconf", h_, alg_])
        for env_ in (True, False):
            out.append(["unauth", h_, env_])
    sizes = [65536, 2**20] if tier == "quick" else [65536, 2**20, 2**21, 3 * 2**20, 2**24]
    for lay in ("env", "trail"):
        for api in ("sync", "async"):
            for size in sizes:
                out.append(["big", lay, api, size])
    return out


def big_base(seed: int, lay: str, size: int = 65536) -> bm.Base:
    """one blob whose ciphertext is exactly 64 KiB / 1 MiB / a multiple of it / 16 MiB (chunk and buffer boundaries of any
    streaming or piecewise implementation)"""
    from ref import cms

    d = seams.Drbg(("C04big", seed))
    rk = seams.make_root(d, "SHA256")
    pt = d.bytes(65536) * (size // 65536)
    blob = cms.ref_encrypt(rk, bm.SID, pt, bm.POS, cek=d.bytes(32), gcm_nonce_=d.bytes(12), key_nonce=d.bytes(32), in_envelope=(lay == "env"))
    return bm.Base(f"big64k/{lay}" if size == 65536 else f"big{size}/{lay}", rk, blob, pt)


def big_mutations(blob: bytes, size: int = 65536):
    n = len(blob)
    head = n - size - 16
    if size == 65536:
        byts = sorted(set(list(range(0, min(head + 48, n))) + list(range(head, n, 1021)) + list(range(n - 64, n))))
        bits_of = lambda b: (0, 7) if head + 48 <= b < n - 64 else range(8)  # noqa: E731
        truncs = list(range(0, head + 20)) + [head + 4096, head + 65535, head + 65536, head + 65537, n - 17, n - 16, n - 15, n - 1]
    else:
        # sparse: one bit of every header byte, every bit of the first / last 4 ciphertext bytes and of the tag's ends, one bit of 61 spread bytes
        step = size // 61
        byts = sorted(set(list(range(0, head + 4)) + list(range(head, n, step)) + [head + 2**16, head + 2**20 - 1, head + 2**20] + list(range(n - 20, n))))
        byts = [b for b in byts if b < n]
        bits_of = lambda b: range(8) if head <= b < head + 4 or b >= n - 20 else (b % 8,)  # noqa: E731
        truncs = [0, 1, head, head + 1, head + 2**16, head + size - 1, head + size, head + size + 1, n - 16, n - 15, n - 1]
    for b in byts:
        for bit in bits_of(b):
            yield ["flip", b * 8 + bit], bm.apply_simple(blob, ["flip", b * 8 + bit])
    for ln in sorted(set(truncs)):
        if 0 <= ln < n:
            yield ["trunc", ln], blob[:ln]


WEAK = ["empty", "zeros64", "zeros32", "ff64", "rkid x4", "key nonce x2", "sd digest x2"]
FORGE_POS = [(31, 31), (31, 0), (0, 31), (0, 0), (0, 5), (0, 3), (17, 13), (17, 31), (31, 13), (16, 13), (18, 13), (17, 12), (17, 14)]
STAGES = ["as L2 key", "as L1 key", "as L0 seed", "as root key"]


def forge(base: bm.Base, weak: str, stage: str, pos, l0: int) -> bytes:
    """A multi-site modification of a valid nonce-mode blob that needs NO secret: key position overwritten, wrapped CEK replaced by one
    wrapped under a KEK derived from publicly known seed material, content replaced by content encrypted under that CEK (IV kept)."""
    import hashlib

    from cryptography.hazmat.primitives import keywrap
    from cryptography.hazmat.primitives.ciphers.aead import AESGCM

    from ref import cms, dtyp, gkdi

    b = cms.decode(base.blob)
    kid = gkdi.unpack_keyid(b.keyid)
    sd = dtyp.target_sd(dtyp.parse_sid_string(b.sid))
    h = base.rk.hash_name
    w = {"empty": b"", "zeros64": b"\0" * 64, "zeros32": b"\0" * 32, "ff64": b"\xff" * 64, "rkid x4": kid.rkid.bytes_le * 4, "key nonce x2": kid.key_info * 2, "sd digest x2": hashlib.sha256(sd).digest() * 2}[weak]
    l1, l2 = pos
    if stage == "as L2 key":
        l2k = w
    elif stage == "as L1 key":
        l2k = gkdi.kdf(h, w, gkdi.LABEL, gkdi.ctx(kid.rkid, l0, l1, 31), 64)
        for m in range(30, l2 - 1, -1):
            l2k = gkdi.kdf(h, l2k, gkdi.LABEL, gkdi.ctx(kid.rkid, l0, l1, m), 64)
    else:
        ch = gkdi.Chain(h, w, kid.rkid, sd, l0)
        if stage == "as L0 seed":
            ch.l0_seed = lambda: w  # type: ignore[method-assign]
        l2k = ch.l2(l1, l2)
    kid2 = kid._replace(l0=l0, l1=l1, l2=l2)
    kek = gkdi.kek_nonce(h, l2k, kid2.key_info)
    cek = b"\xA5" * 32
    nonce = cms.gcm_nonce(b)
    enc = AESGCM(cek).encrypt(nonce, b"FORGED-" + base.plaintext[:5], None)
    return cms.encode(b._replace(keyid=gkdi.pack_keyid(kid2), enc_cek=keywrap.aes_key_wrap(kek, cek), enc_content=enc))


def history_cache(base: bm.Base, kind: str):
    """a KeyCache with a past: 'dc' = seed keys of the blob's own position fetched from the reference DC by an unprotect;
    'dc+protect' = followed by a protect in the same interval served from the cache; 'root+protect@31' = root key loaded and a protect
    while the clock stands in the last interval (31, 31) of the blob's L0"""
    import dpapi_ng

    from env import refdc, secctx, transport
    from ref import gkdi

    pos = {"root+protect@31": (bm.POS[0], 31, 31), "root+l0flips+protect": (bm.POS[0], 20, 3), "dc@L1=0": (bm.POS[0], 0, 5)}.get(kind, bm.POS)
    if kind in ("root+pickle", "root+deepcopy"):
        # the cache object has travelled (pickle: another process / a task queue; deepcopy) after it was used once
        import copy
        import pickle

        c0 = seams.make_cache(base.rk)
        assert bytes(dpapi_ng.ncrypt_unprotect_secret(base.blob, cache=c0)) == base.plaintext
        return pickle.loads(pickle.dumps(c0)) if kind == "root+pickle" else copy.deepcopy(c0)
    ft = (pos[0] * 1024 + pos[1] * 32 + pos[2]) * gkdi.B + 777
    kw = dict(server="dc", username="u", password="p", auth_protocol="ntlm")
    if kind.startswith("root+"):
        cache = seams.make_cache(base.rk)
    else:
        cache = dpapi_ng.KeyCache()
    if kind == "root+l0flips+protect":
        # the long-lived cache has first been shown the blob with every single bit of its L0 field flipped (32 other L0 values, all rejected)
        from ref import cms as _cms, gkdi as _g

        b_ = _cms.decode(base.blob)
        kid_ = _g.unpack_keyid(b_.keyid)
        for bit in range(31, -1, -1):
            try:
                dpapi_ng.ncrypt_unprotect_secret(_cms.encode(b_._replace(keyid=_g.pack_keyid(kid_._replace(l0=kid_.l0 ^ (1 << bit))))), cache=cache)
            except Exception:  # noqa: BLE001
                pass
    dc = refdc.DC([base.rk], now=pos)
    with seams.clock(ft), transport.network(dc), secctx.scripted_client(lambda u, p, **k: secctx.ScriptedContext([b"C1"], 16)):
        if not kind.startswith("root+"):
            assert bytes(dpapi_ng.ncrypt_unprotect_secret(base.blob, cache=cache, **kw)) == base.plaintext
        if kind not in ("dc", "dc@L1=0"):
            dpapi_ng.ncrypt_protect_secret(b"later", bm.SID, root_key_identifier=base.rk.rkid, cache=cache, **kw)
    return cache


AES_OIDS = {f"2.16.840.1.101.3.4.1.{n}": name for n, name in [(1, "ecb128"), (2, "cbc128"), (3, "ofb128"), (4, "cfb128"), (5, "wrap128"), (6, "gcm128"), (7, "ccm128"), (21, "ecb192"), (22, "cbc192"), (26, "gcm192"),
                                                              (41, "ecb256"), (42, "cbc256"), (43, "ofb256"), (44, "cfb256"), (45, "wrap256"), (47, "ccm256")]}
AES_OIDS["1.2.840.113549.3.7"] = "des-ede3-cbc"


def aligned_base(base: bm.Base, ptlen: int) -> bm.Base:
    """the same key, layout and mode as `base` but a plaintext of ptlen octets (ciphertext + tag a whole number of cipher blocks for 16, 32)"""
    from ref import cms

    d = seams.Drbg(("C04algsub", base.bid, ptlen))
    pt = d.bytes(ptlen)
    blob = cms.ref_encrypt(base.rk, bm.SID, pt, bm.POS, cek=d.bytes(32), gcm_nonce_=d.bytes(12), key_nonce=d.bytes(32), domain="domain.test", forest="forest.test", in_envelope="/env" in base.bid)
    return bm.Base(base.bid, base.rk, blob, pt)


def algsub_mutations(blob: bytes):
    """the (unauthenticated) content-encryption AlgorithmIdentifier replaced by another cipher / mode, its parameters by what that mode takes,
    and one ciphertext octet substituted with every value (what a padding check would need)"""
    from ref import cms, der

    b = cms.decode(blob)
    n = len(b.enc_content)
    forms = {"gcm-kept": b.content_params, "iv16": der.enc_octets(bytes(range(16))), "iv8": der.enc_octets(bytes(8)), "null": b"\x05\x00", "absent": None}
    for oid, name in AES_OIDS.items():
        for fname, params in forms.items():
            yield ["algsub", name, fname, None, None], cms.encode(b._replace(content_alg=oid, content_params=params))
            if fname in ("iv16", "gcm-kept") and n:
                for where in (n - 1, n - 17):
                    if where < 0:
                        continue
                    for v in range(256):
                        if v == b.enc_content[where]:
                            continue
                        ct = bytearray(b.enc_content)
                        ct[where] = v
                        yield ["algsub", name, fname, where - n, v], cms.encode(b._replace(content_alg=oid, content_params=params, enc_content=bytes(ct)))


def cms_decode(blob: bytes):
    from ref import cms

    return cms.decode(blob)


def gkdi_B() -> int:
    from ref import gkdi

    return gkdi.B


def run_shard(shard, tier, seed, acc) -> None:
    worker_init()
    _hist_cache["cache"] = None
    if shard[0] == "dhwindow":
        # public-key (DH) blob whose nested FFCDHKey announces a key length the data cannot back: if the library sliced the fields anyway the
        # public value would come out empty (= 0), the shared secret 0 and the KEK a public constant - forged accordingly, must be rejected
        import struct as _struct

        from cryptography.hazmat.primitives import keywrap
        from cryptography.hazmat.primitives.ciphers.aead import AESGCM

        from ref import cms, gkdi

        base = bm.base_blob(seed, shard[1], "DH", shard[2])
        st, v = unprotect(base, base.blob)
        if st != "ok" or bytes(v) != base.plaintext:
            acc.violate("dhwindow.base-does-not-decrypt", ["dhwindow", shard[1], shard[2]], {"outcome": st})
            acc.ev()
            return
        b = cms.decode(base.blob)
        kid = gkdi.unpack_keyid(b.keyid)
        ki = bytes(kid.key_info)
        body = len(ki) - 8
        n = 0
        for kl in sorted({body // 2, body // 2 + 1, body - 1, body, body + 1, 2**16, (body // 3) + 1, (body // 3) * 2}):
            for zlen in sorted({kl, body // 3, 1}):
                kid2 = kid._replace(key_info=ki[:4] + _struct.pack("<I", kl) + ki[8:])
                kek = gkdi.kek_from_shared(base.rk.hash_name, bytes(zlen), "SHA256")
                cek = b"\x3c" * 32
                enc = AESGCM(cek).encrypt(cms.gcm_nonce(b), b"FORGED-DH", None)
                label = ["dhwindow", kl, zlen]
                data = cms.encode(b._replace(keyid=gkdi.pack_keyid(kid2), enc_cek=keywrap.aes_key_wrap(kek, cek), enc_content=enc))
                oc = judge(acc, base, label, data, [], "async" if n % 2 else "sync")
                acc.outcome("dhwindow:" + oc.split(":")[0])
                n += 1
        acc.ev(n)
        acc.nt_counted(n)
        acc.sample({"DH key_info": len(ki), "announced key lengths": "around (len-8)/3, (len-8)/2, len-8, 65536"})
        return
    if shard[0] == "algconf":
        # a public-key blob under an ECDH root key whose key_info is replaced by a well-formed *DH* key structure with public value 1
        # (shared secret 1 whatever the private key) - and the same with p-1 / 0: the root key says ECDH, so none of it may be used
        from cryptography.hazmat.primitives import keywrap
        from cryptography.hazmat.primitives.ciphers.aead import AESGCM

        from ref import cms, gkdi

        n = 0
        for env_ in (True, False):
            base = bm.base_blob(seed, shard[1], shard[2], env_)
            st, v = unprotect(base, base.blob)
            if st != "ok" or bytes(v) != base.plaintext:
                acc.violate("algconf.base-does-not-decrypt", ["mut", base.bid, ["algconf", "base"]], {"outcome": st, "value": repr(v)[:100]})
                continue
            b = cms.decode(base.blob)
            kid = gkdi.unpack_keyid(b.keyid)
            groups = [(8, 0xFFFFFFFFFFFFFFC5, 2), (256, gkdi.RFC5114_P, gkdi.RFC5114_G)]
            for kl, p_, g_ in groups:
                for y_, z_ in ((1, 1), (0, 0), (p_ - 1, 1), (p_ - 1, p_ - 1)):
                    for flags in (kid.flags, kid.flags | 1, kid.flags & ~1):
                        ki = gkdi.pack_dh_key(kl, p_, g_, y_)
                        for secret_hash in ("SHA256", "SHA384"):
                            kek = gkdi.kek_from_shared(base.rk.hash_name, z_.to_bytes(kl, "big"), secret_hash)
                            cek = b"\x5a" * 32
                            enc = AESGCM(cek).encrypt(cms.gcm_nonce(b), b"FORGED-ALG", None)
                            label = ["algconf", kl, str(y_)[:12], flags, secret_hash]
                            data = cms.encode(b._replace(keyid=gkdi.pack_keyid(kid._replace(key_info=ki, flags=flags)), enc_cek=keywrap.aes_key_wrap(kek, cek), enc_content=enc))
                            oc = judge(acc, base, label, data, [], "async" if n % 2 else "sync")
                            acc.outcome("algconf:" + oc.split(":")[0])
                            n += 1
        acc.ev(n)
        acc.nt_counted(n)
        acc.sample({"root key": shard[2], "key_info replaced by": "FFC DH key blob with y in {0, 1, p-1}", "forgeries": n})
        return
    if shard[0] == "unauth":
        # a reader who is NOT authorised for the blob's SID: the DC answers GetKey with a public-key envelope (no seed key). Nothing decrypts;
        # in particular not a blob re-keyed from what that reply contains (the group public key is public)
        import dpapi_ng
        from cryptography.hazmat.primitives import keywrap
        from cryptography.hazmat.primitives.ciphers.aead import AESGCM

        from env import refdc, secctx, transport
        from mc import vloop
        from ref import cms, dtyp, gkdi

        base = bm.base_blob(seed, shard[1], "nonce", shard[2])
        b = cms.decode(base.blob)
        kid = gkdi.unpack_keyid(b.keyid)
        sd = dtyp.target_sd(dtyp.parse_sid_string(b.sid))
        pub = gkdi.server_envelope(base.rk, sd, kid.l0, kid.l1, kid.l2, authorised=False)[-1]
        cands = {"public key blob": pub, "public key blob[:64]": pub[:64], "public key blob[-64:]": pub[-64:], "empty": b"", "zeros64": b"\0" * 64}
        ft = (bm.POS[0] * 1024 + bm.POS[1] * 32 + bm.POS[2]) * gkdi_B() + 5
        n = 0
        datas = [(["unauth", "base"], base.blob)]
        for name, l2k in cands.items():
            kek = gkdi.kek_nonce(base.rk.hash_name, l2k, kid.key_info)
            cek = b"\x77" * 32
            enc = AESGCM(cek).encrypt(cms.gcm_nonce(b), b"FORGED-UNAUTH", None)
            datas.append((["unauth", name], cms.encode(b._replace(enc_cek=keywrap.aes_key_wrap(kek, cek), enc_content=enc))))
        for label, data in datas:
            for api in ("sync", "async"):
                for shared in (False, True):
                    cache = dpapi_ng.KeyCache()
                    dc = refdc.DC([base.rk], now=bm.POS, authorised=False)
                    kw = dict(server="dc", username="u", password="p", auth_protocol="ntlm", cache=cache)
                    with seams.clock(ft), transport.network(dc), secctx.scripted_client(lambda u, p, **k: secctx.ScriptedContext([b"C1"], 16)):
                        for rep in range(2 if shared else 1):
                            try:
                                v = dpapi_ng.ncrypt_unprotect_secret(data, **kw) if api == "sync" else vloop.run(dpapi_ng.async_ncrypt_unprotect_secret(data, **kw))
                                acc.violate("unauth.decrypted", ["mut", base.bid, label, api], {"returned": bytes(v)[:40].hex(), "call": rep})
                                acc.outcome("unauth:DECRYPTED")
                            except Exception as e:  # noqa: BLE001
                                acc.outcome("unauth:error")
                            n += 1
        acc.ev(n)
        acc.nt_counted(n)
        acc.sample({"reader": "not authorised for the SID; the DC returns a public-key envelope", "forgeries keyed from": sorted(cands)})
        return
    if shard[0] == "selfcopy":
        # parts of the blob copied and put in again: its own ciphertext + tag, every DER node (content and whole TLV), its tail, the whole
        # blob - appended behind the blob, behind the envelope, and in front. Sealed parts must not combine into another plaintext
        from ref import der

        base = bm.base_by_id(seed, shard[1])
        st, v = unprotect(base, base.blob)
        if st != "ok" or bytes(v) != base.plaintext:
            from mc.runner import HarnessError

            raise HarnessError(f"base blob {base.bid} does not decrypt: {st} {v!r}")
        b = cms_decode(base.blob)
        root = der.parse_one(base.blob)
        pieces = {"enc_content": bytes(b.enc_content), "blob": base.blob, "tail16": base.blob[-16:], "tail32": base.blob[-32:], "ct-without-tag": bytes(b.enc_content)[:-16], "tag": bytes(b.enc_content)[-16:]}
        for path, nd in der.walk(root):
            if len(path) <= 5:
                pieces["node%s" % list(path)] = base.blob[nd.start : nd.end]
                pieces["content%s" % list(path)] = bytes(nd.content)
        n = 0
        for name, x in pieces.items():
            if not x:
                continue
            for where, data in (("append", base.blob + x), ("append-twice", base.blob + x + x), ("after-envelope", base.blob[: root.end] + x + base.blob[root.end :]), ("prepend", x + base.blob)):
                oc = judge(acc, base, ["selfcopy", name, where], data, [], "async" if n % 2 else "sync")
                acc.outcome("selfcopy:" + oc.split(":")[0])
                n += 1
        acc.ev(n)
        acc.nt_counted(n)
        acc.sample({"blob": base.bid, "pieces copied": sorted(pieces)[:8], "placements": ["append", "append-twice", "after-envelope", "prepend"]})
        return
    if shard[0] == "splice":
        # blobs produced by the library itself in ONE process (same SID, different plaintexts): parts of one transplanted into another
        import dpapi_ng
        from ref import cms

        base0 = bm.base_by_id(seed, shard[1])
        ft = (bm.POS[0] * 1024 + bm.POS[1] * 32 + bm.POS[2]) * gkdi_B() + 5
        pts = [b"plaintext-A", b"plaintext-B!", b"plaintext-C?!"]
        blobs = []
        with seams.clock(ft):
            cache = seams.make_cache(base0.rk)
            for i_, pt in enumerate(pts):
                if i_ % 2 == 0:
                    blobs.append(bytes(dpapi_ng.ncrypt_protect_secret(pt, bm.SID, root_key_identifier=base0.rk.rkid, cache=cache)))
                else:
                    from mc import vloop

                    blobs.append(bytes(vloop.run(dpapi_ng.async_ncrypt_protect_secret(pt, bm.SID, root_key_identifier=base0.rk.rkid, cache=cache))))
        n = 0
        # every transplant is judged against a cache that has ALREADY opened all the genuine blobs (whatever a cache remembers per key
        # identifier or per descriptor must not let a transplant through), the retry inside judge() runs on a second copy of it
        for b_ in blobs:
            dpapi_ng.ncrypt_unprotect_secret(b_, cache=cache)
        _hist_cache["cache"] = cache
        for ia, ib in itertools.permutations(range(len(pts)), 2):
            A, Bb = cms.decode(blobs[ia]), cms.decode(blobs[ib])
            base = bm.Base(base0.bid, base0.rk, blobs[ia], pts[ia])
            for what, repl in (("content", dict(enc_content=Bb.enc_content)), ("content+params", dict(enc_content=Bb.enc_content, content_params=Bb.content_params)), ("params", dict(content_params=Bb.content_params)),
                               ("enc_cek", dict(enc_cek=Bb.enc_cek)), ("content+params+enc_cek", dict(enc_content=Bb.enc_content, content_params=Bb.content_params, enc_cek=Bb.enc_cek)), ("keyid", dict(keyid=Bb.keyid))):
                for in_env in (True, False):
                    label = ["splice", ia, ib, what, in_env]
                    oc = judge(acc, base, label, cms.encode(A._replace(in_envelope=in_env, **repl)), [], "async" if n % 2 else "sync")
                    acc.outcome("splice:" + oc.split(":")[0])
                    n += 1
        acc.ev(n)
        acc.nt_counted(n)
        acc.sample({"blobs protected by the library in one process": len(pts), "transplants": ["content", "content+params", "params", "enc_cek", "content+params+enc_cek", "keyid"]})
        _hist_cache["cache"] = None
        return
    if shard[0] == "algsub":
        base0 = bm.base_by_id(seed, shard[1])
        n = 0
        for ptlen in ((11, 32) if tier == "quick" else (11, 16, 32, 48)):
            base = aligned_base(base0, ptlen)
            st, v = unprotect(base, base.blob)
            if st != "ok" or bytes(v) != base.plaintext:
                acc.violate("algsub.base-does-not-decrypt", ["algsub-base", base.bid, ptlen], {"outcome": st})
                continue
            for label, data in algsub_mutations(base.blob):
                label = label + [ptlen]
                oc = judge(acc, base, label, data, [], "async" if n % 7 == 3 else "sync")
                acc.outcome("algsub:" + oc.split(":")[0])
                n += 1
        acc.ev(n)
        acc.nt_counted(n)
        acc.sample({"blob": base.bid, "content-encryption algorithm replaced by": sorted(AES_OIDS.values()), "mutations": n})
        return
    if shard[0] == "forge-hist":
        base = bm.base_by_id(seed, shard[1])
        n = 0
        try:
            for kind in ("dc", "dc+protect", "root+protect@31", "root+l0flips+protect", "dc@L1=0", "root+pickle", "root+deepcopy"):
                _hist_cache["cache"] = None
                if kind == "dc@L1=0":
                    # the blob lies in the FIRST L1 interval: the envelope the DC sends for it has no L1 key
                    from ref import cms as _cms

                    d_ = seams.Drbg(("C04L10", seed, base.bid))
                    pos0 = (bm.POS[0], 0, 5)
                    base = bm.Base(base.bid, base.rk, _cms.ref_encrypt(base.rk, bm.SID, base.plaintext, pos0, cek=d_.bytes(32), gcm_nonce_=d_.bytes(12), key_nonce=d_.bytes(32), domain="domain.test", forest="forest.test", in_envelope="/env" in base.bid), base.plaintext)
                _hist_cache["cache"] = history_cache(base, kind)
                st, v = unprotect(base, base.blob)
                if st != "ok" or bytes(v) != base.plaintext:
                    acc.violate("forge-hist.base-does-not-decrypt", ["forge-hist", base.bid, kind], {"outcome": st, "value": repr(v)[:100]})
                    continue
                for weak in WEAK:
                    for stage in STAGES:
                        for pos in FORGE_POS:
                            for l0_ in ((bm.POS[0], bm.POS[0] - 1, bm.POS[0] + 1) if stage == "as root key" else (bm.POS[0],)):
                                label = ["forge", weak, stage, list(pos), l0_, kind]
                                oc = judge(acc, base, label, forge(base, weak, stage, pos, l0_), [], "async" if n % 2 else "sync")
                                acc.outcome("forge-hist:" + oc.split(":")[0])
                                n += 1
        finally:
            _hist_cache["cache"] = None
        acc.ev(n)
        acc.nt_counted(n)
        acc.sample({"blob": base.bid, "forgery against caches with a history": ["dc", "dc+protect", "root+protect@31"]})
        return
    if shard[0] == "crossgroup":
        # a member of ANOTHER group Y (who legitimately obtains Y's seed keys for any position) re-wraps the CEK of a blob for group X under
        # "Y's KEK for X's key identifier" and replaces the content. Judged on long-lived caches (root key loaded) that have handled Y's
        # blobs before X's: what the cache learnt for one security descriptor must never open a blob of another
        from cryptography.hazmat.primitives import keywrap
        from cryptography.hazmat.primitives.ciphers.aead import AESGCM

        import dpapi_ng

        from ref import cms, dtyp, gkdi

        base = bm.base_by_id(seed, shard[1])
        b = cms.decode(base.blob)
        kid = gkdi.unpack_keyid(b.keyid)
        h = base.rk.hash_name
        n = 0
        try:
            for sid_y in ("S-1-5-21-1-2-3-513", "S-1-1-0", "S-1-5-0"):
                sd_y = dtyp.target_sd(dtyp.parse_sid_string(sid_y))
                d_ = seams.Drbg(("C04cross", seed, base.bid, sid_y))
                blob_y = cms.ref_encrypt(base.rk, sid_y, b"for group Y", (kid.l0, kid.l1, kid.l2), cek=d_.bytes(32), gcm_nonce_=d_.bytes(12), key_nonce=d_.bytes(32), domain="domain.test", forest="forest.test")
                blob_y2 = cms.ref_encrypt(base.rk, sid_y, b"for group Y, later", (kid.l0, 31, 31), cek=d_.bytes(32), gcm_nonce_=d_.bytes(12), key_nonce=d_.bytes(32), domain="domain.test", forest="forest.test")
                for hist in ("unprotect-Y", "unprotect-Y-twice", "protect-Y", "unprotect-Y-then-X", "none"):
                    cache = seams.make_cache(base.rk)
                    ft = (kid.l0 * 1024 + kid.l1 * 32 + kid.l2) * gkdi.B + 99
                    with seams.clock(ft):
                        if hist.startswith("unprotect-Y"):
                            assert bytes(dpapi_ng.ncrypt_unprotect_secret(blob_y, cache=cache)) == b"for group Y"
                        if hist == "unprotect-Y-twice":
                            assert bytes(dpapi_ng.ncrypt_unprotect_secret(blob_y2, cache=cache)) == b"for group Y, later"
                        if hist == "protect-Y":
                            dpapi_ng.ncrypt_protect_secret(b"y", sid_y, root_key_identifier=base.rk.rkid, cache=cache)
                        if hist == "unprotect-Y-then-X":
                            assert bytes(dpapi_ng.ncrypt_unprotect_secret(base.blob, cache=cache)) == base.plaintext
                    _hist_cache["cache"] = cache
                    for pos in ((kid.l1, kid.l2), (31, 31), (0, 0), (kid.l1, 31)):
                        l2k = gkdi.Chain(h, base.rk.key, kid.rkid, sd_y, kid.l0).l2(pos[0], pos[1])
                        kid2 = kid._replace(l1=pos[0], l2=pos[1])
                        kek = gkdi.kek_nonce(h, l2k, kid2.key_info)
                        cek = b"\x5a" * 32
                        enc = AESGCM(cek).encrypt(cms.gcm_nonce(b), b"FROM-GROUP-Y", None)
                        data = cms.encode(b._replace(keyid=gkdi.pack_keyid(kid2), enc_cek=keywrap.aes_key_wrap(kek, cek), enc_content=enc))
                        label = ["crossgroup", sid_y, hist, list(pos)]
                        oc = judge(acc, base, label, data, [], "async" if n % 2 else "sync")
                        acc.outcome("crossgroup:" + oc.split(":")[0])
                        n += 1
        finally:
            _hist_cache["cache"] = None
        acc.ev(n)
        acc.nt_counted(n)
        acc.sample({"blob": base.bid, "re-wrapped by a member of": ["S-1-5-21-1-2-3-513", "S-1-1-0", "S-1-5-0"], "cache histories": 5})
        return
    if shard[0] == "forge":
        base = bm.base_by_id(seed, shard[1])
        st, v = unprotect(base, base.blob)
        if st != "ok" or bytes(v) != base.plaintext:
            from mc.runner import HarnessError

            raise HarnessError(f"base blob {base.bid} does not decrypt: {st} {v!r}")
        n = 0
        for weak in WEAK:
            for stage in STAGES:
                for pos in FORGE_POS:
                    for l0 in (bm.POS[0], bm.POS[0] - 1):
                        label = ["forge", weak, stage, list(pos), l0]
                        oc = judge(acc, base, label, forge(base, weak, stage, pos, l0), [], "async" if n % 2 else "sync")
                        acc.outcome("forge:" + oc.split(":")[0])
                        n += 1
        acc.ev(n)
        acc.nt_counted(n)
        acc.sample({"blob": base.bid, "forgery": label})
        return
    if shard[0] == "big":
        _, lay, api, size = shard
        base = big_base(seed, lay, size)
        st, v = unprotect(base, base.blob, api)
        if st != "ok" or bytes(v) != base.plaintext:
            acc.violate("big.base-does-not-decrypt", ["big", lay, api, size], {"outcome": st, "value": repr(v)[:100]})
            acc.ev()
            return
        fm: t.List[t.Any] = []
        n = 0
        for label, data in big_mutations(base.blob, size):
            oc = judge(acc, base, label, data, fm, api)
            n += 1
            acc.outcome("big:" + oc.split(":")[0])
        acc.ev(n)
        acc.nt_counted(n)
        acc.sample({"blob": base.bid, "api": api, "len": len(base.blob), "mutations": n})
        return
    base = bm.base_by_id(seed, shard[1])
    fm = bm.field_map(base.blob)
    st, v = unprotect(base, base.blob)
    if st != "ok" or bytes(v) != base.plaintext:
        from mc.runner import HarnessError

        raise HarnessError(f"base blob {base.bid} does not decrypt: {st} {v!r}")
    n = 0
    if shard[0] == "simple":
        kind = shard[2]
        per_field: t.Dict[str, t.Counter] = {}
        for label, data in bm.simple_mutations(base.blob):
            if label[0] != kind:
                continue
            oc = judge(acc, base, label, data, fm, "async" if n % 5 == 4 else "sync")
            n += 1
            acc.outcome(oc)
            if kind == "flip":
                acc.outcome(f"flip[{bm.field_of(fm, label[1] // 8)}]->{oc.split(':')[0]}")
        acc.ev(n)
        acc.nt_counted(n)
        acc.sample({"blob": base.bid, "mutation": label, "len": len(base.blob)})
    else:
        harmless = []
        for byte in range(len(base.blob)):
            b = bytearray(base.blob)
            b[byte] ^= 1
            st, v = unprotect(base, bytes(b))
            n += 1
            if st == "ok" and bytes(v) == base.plaintext:
                harmless.append(byte * 8)
        firsts = [s * 8 for s, e, nm in fm]
        cand = sorted(set(harmless) | set(firsts))
        cap = 90 if tier == "quick" else 130
        if len(cand) > cap:
            acc.stat_max("pair_candidates_before_thinning", len(cand))
            cand = sorted(set(harmless[:: max(1, 2 * len(harmless) // cap)]) | set(firsts[:: max(1, 2 * len(firsts) // cap)]))
        for b1, b2 in itertools.combinations(cand, 2):
            label = ["flip2", b1, b2]
            oc = judge(acc, base, label, bm.apply_simple(base.blob, label), fm)
            n += 1
            acc.outcome("pair:" + oc.split(":")[0])
        acc.ev(n)
        acc.nt_counted(n)
        acc.stat_max("harmless_single_flip_bytes", len(harmless))
        acc.sample({"blob": base.bid, "pair_candidates": len(cand), "harmless_bytes": len(harmless)})


def replay(case, seed, acc) -> None:
    worker_init()
    _, bid, label = case[:3]
    api = case[3] if len(case) > 3 else "sync"
    acc.ev()
    if label[0] in ("selfcopy", "crossgroup"):
        run_shard([label[0], bid], "quick", seed, acc)
        for kk in list(acc.violations):
            acc.violations[kk] = [e for e in acc.violations[kk] if e["case"][2] == list(label)]
            if not acc.violations[kk]:
                del acc.violations[kk]
        acc.violation_count = sum(len(v) for v in acc.violations.values())
        return
    if label[0] in ("algconf", "unauth"):
        parts = bid.split("/")
        run_shard(["algconf", parts[0], parts[1]] if label[0] == "algconf" else ["unauth", parts[0], parts[2] == "env"], "quick", seed, acc)
        for kk in list(acc.violations):
            acc.violations[kk] = [e for e in acc.violations[kk] if e["case"][2] == list(label)]
            if not acc.violations[kk]:
                del acc.violations[kk]
        acc.violation_count = sum(len(v) for v in acc.violations.values())
        return
    if label[0] == "dhwindow":
        parts = bid.split("/")
        run_shard(["dhwindow", parts[0], parts[2] == "env"], "quick", seed, acc)
        for kk in list(acc.violations):
            acc.violations[kk] = [e for e in acc.violations[kk] if e["case"][2] == list(label)]
            if not acc.violations[kk]:
                del acc.violations[kk]
        acc.violation_count = sum(len(v) for v in acc.violations.values())
        return
    if bid.startswith("big"):
        base = big_base(seed, bid.split("/")[1], 65536 if bid.startswith("big64k/") else int(bid.split("/")[0][3:]))
        judge(acc, base, label, bm.apply_simple(base.blob, label), [], api)
        return
    base = bm.base_by_id(seed, bid)
    if label[0] == "splice":
        run_shard(["splice", bid], "quick", seed, acc)
        for kk in list(acc.violations):
            acc.violations[kk] = [e for e in acc.violations[kk] if e["case"][2][:5] == list(label)[:5]]
            if not acc.violations[kk]:
                del acc.violations[kk]
        acc.violation_count = sum(len(v) for v in acc.violations.values())
        return
    if label[0] == "algsub":
        base = aligned_base(base, label[-1])
        for lab, data in algsub_mutations(base.blob):
            if lab + [label[-1]] == list(label):
                judge(acc, base, label, data, [], api)
        return
    if label[0] == "forge":
        try:
            if len(label) > 5:
                _hist_cache["cache"] = history_cache(base, label[5])
            judge(acc, base, label, forge(base, label[1], label[2], tuple(label[3]), label[4]), [], api)
        finally:
            _hist_cache["cache"] = None
        return
    judge(acc, base, label, bm.apply_simple(base.blob, label), bm.field_map(base.blob), api)


def calibrate() -> None:
    from mc.runner import HarnessError
    from ref import cms

    try:
        cms.calibrate()
    except AssertionError as e:
        raise HarnessError(f"calibration failed: {e!r}") from e


def finish(tier, seed, merged) -> None:
    from mc.runner import Vacuous

    if not merged.outcomes.get("same-plaintext") or not any(k.startswith("error:") for k in merged.outcomes):
        raise Vacuous("expected both harmless and rejected mutations")
