"""C04 — a modified blob never decrypts to different plaintext."""
from __future__ import annotations

import itertools
import typing as t

from checks import blobmut as bm
from env import seams

ID = "C04"
LEVEL = "fault_enumeration"
RULE = (
    "for every base blob (quick: SHA512/nonce and SHA256/P-256 in both layouts + one 300-byte plaintext; thorough: 4 hashes x {nonce,DH,P256,P384} x 2 layouts + the long one), exhaustively: "
    "every single-bit flip, every truncation length, deletion of each byte, insertion of 00/FF at each offset, every TLV-header byte and key-identifier header byte replaced by each of "
    "{00,01,7F,80,81,FF}, a blob whose ciphertext is exactly 64 KiB (every bit of its headers and of the first/last bytes of the ciphertext, two bits of every 1021st byte, truncations around 4 KiB/64 KiB) through the sync and the async API, and all pairs of flips among {bit 0 of every byte whose flip was harmless} u {first bit of every field}. Each mutated blob is decrypted by the real unprotect API with an offline "
    "cache holding the right root key (network seams raise). Blobs rejected by the authentication checks are decrypted a second time in the same process (a retry must not succeed). Oracle: original plaintext | any exception | needs-network; different bytes is the violation. Distinct by (blob, mutation); non-trivial = the "
    "mutated bytes differ from the original."
)
ASSUME = ["offline KeyCache with the matching root key; DNS/socket seams raise NeedsNetwork", "BudgetExceeded / hangs are C05's subject, not C04's"]
BOUND = {"quick": "5 base blobs", "thorough": "33 base blobs"}
KINDS = ["flip", "trunc", "del", "ins", "sub"]


def worker_init() -> None:
    seams.block_network()


def unprotect(base: bm.Base, data: bytes, api: str = "sync"):
    import dpapi_ng

    cache = seams.make_cache(base.rk)
    try:
        if api == "async":
            from mc import vloop

            return "ok", vloop.run(dpapi_ng.async_ncrypt_unprotect_secret(data, cache=cache))
        return "ok", dpapi_ng.ncrypt_unprotect_secret(data, cache=cache)
    except seams.NeedsNetwork as e:
        return "net", e
    except Exception as e:  # noqa: BLE001
        return "exc", e


def judge(acc, base: bm.Base, label, data: bytes, fm, api: str = "sync") -> str:
    st, v = unprotect(base, data, api)
    if st == "exc" and type(v).__name__ in ("InvalidTag", "InvalidUnwrap"):
        # a rejected blob must stay rejected: decrypt it again in the same process (retry / second caller / the other API flavour)
        st2, v2 = unprotect(base, data, "async" if api == "sync" else "sync")
        if st2 == "ok":
            st, v = st2, v2
    if st == "ok":
        if bytes(v) != base.plaintext:
            off = label[1] // 8 if label[0] in ("flip", "flip2") else (label[1] if len(label) > 1 and isinstance(label[1], int) else 0)
            acc.violate("different-plaintext", ["mut", base.bid, label, api], {"field": bm.field_of(fm, off), "returned": bytes(v)[:64].hex(), "original": base.plaintext[:64].hex()}, size=len(repr(label)))
            return "DIFFERENT"
        return "same-plaintext"
    if st == "net":
        return "needs-network"
    return "error:" + type(v).__name__


def shards(tier: str, seed: int):
    out = []
    for b in bm.bases(seed, tier):
        for k in KINDS:
            out.append(["simple", b.bid, k])
        out.append(["pairs", b.bid])
    for lay in ("env", "trail"):
        for api in ("sync", "async"):
            out.append(["big", lay, api])
    return out


def big_base(seed: int, lay: str) -> bm.Base:
    """one blob whose ciphertext is exactly 64 KiB (chunk / buffer boundary of any streaming implementation)"""
    from ref import cms

    d = seams.Drbg(("C04big", seed))
    rk = seams.make_root(d, "SHA256")
    pt = d.bytes(65536)
    blob = cms.ref_encrypt(rk, bm.SID, pt, bm.POS, cek=d.bytes(32), gcm_nonce_=d.bytes(12), key_nonce=d.bytes(32), in_envelope=(lay == "env"))
    return bm.Base(f"big64k/{lay}", rk, blob, pt)


def big_mutations(blob: bytes):
    n = len(blob)
    head = n - 65536 - 16
    byts = sorted(set(list(range(0, min(head + 48, n))) + list(range(head, n, 1021)) + list(range(n - 64, n))))
    for b in byts:
        for bit in ((0, 7) if head + 48 <= b < n - 64 else range(8)):
            yield ["flip", b * 8 + bit], bm.apply_simple(blob, ["flip", b * 8 + bit])
    for ln in sorted(set(list(range(0, head + 20)) + [head + 4096, head + 65535, head + 65536, head + 65537, n - 17, n - 16, n - 15, n - 1])):
        if 0 <= ln < n:
            yield ["trunc", ln], blob[:ln]


def run_shard(shard, tier, seed, acc) -> None:
    worker_init()
    if shard[0] == "big":
        _, lay, api = shard
        base = big_base(seed, lay)
        st, v = unprotect(base, base.blob, api)
        if st != "ok" or bytes(v) != base.plaintext:
            acc.violate("big.base-does-not-decrypt", ["big", lay, api], {"outcome": st, "value": repr(v)[:100]})
            acc.ev()
            return
        fm: t.List[t.Any] = []
        n = 0
        for label, data in big_mutations(base.blob):
            oc = judge(acc, base, label, data, fm, api)
            n += 1
            acc.outcome("big:" + oc.split(":")[0])
        acc.ev(n)
        acc.nt_counted(n)
        acc.sample({"blob": base.bid, "api": api, "len": len(base.blob), "mutations": n})
        return
    base = bm.base_by_id(seed, shard[1])
    fm = bm.field_map(base.blob)
    st, v = unprotect(base, base.blob)
    if st != "ok" or bytes(v) != base.plaintext:
        from mc.runner import HarnessError

        raise HarnessError(f"base blob {base.bid} does not decrypt: {st} {v!r}")
    n = 0
    if shard[0] == "simple":
        kind = shard[2]
        per_field: t.Dict[str, t.Counter] = {}
        for label, data in bm.simple_mutations(base.blob):
            if label[0] != kind:
                continue
            oc = judge(acc, base, label, data, fm, "async" if n % 5 == 4 else "sync")
            n += 1
            acc.outcome(oc)
            if kind == "flip":
                acc.outcome(f"flip[{bm.field_of(fm, label[1] // 8)}]->{oc.split(':')[0]}")
        acc.ev(n)
        acc.nt_counted(n)
        acc.sample({"blob": base.bid, "mutation": label, "len": len(base.blob)})
    else:
        harmless = []
        for byte in range(len(base.blob)):
            b = bytearray(base.blob)
            b[byte] ^= 1
            st, v = unprotect(base, bytes(b))
            n += 1
            if st == "ok" and bytes(v) == base.plaintext:
                harmless.append(byte * 8)
        firsts = [s * 8 for s, e, nm in fm]
        cand = sorted(set(harmless) | set(firsts))
        cap = 90 if tier == "quick" else 130
        if len(cand) > cap:
            acc.stat_max("pair_candidates_before_thinning", len(cand))
            cand = sorted(set(harmless[:: max(1, 2 * len(harmless) // cap)]) | set(firsts[:: max(1, 2 * len(firsts) // cap)]))
        for b1, b2 in itertools.combinations(cand, 2):
            label = ["flip2", b1, b2]
            oc = judge(acc, base, label, bm.apply_simple(base.blob, label), fm)
            n += 1
            acc.outcome("pair:" + oc.split(":")[0])
        acc.ev(n)
        acc.nt_counted(n)
        acc.stat_max("harmless_single_flip_bytes", len(harmless))
        acc.sample({"blob": base.bid, "pair_candidates": len(cand), "harmless_bytes": len(harmless)})


def replay(case, seed, acc) -> None:
    worker_init()
    _, bid, label = case[:3]
    api = case[3] if len(case) > 3 else "sync"
    acc.ev()
    if bid.startswith("big64k/"):
        base = big_base(seed, bid.split("/")[1])
        judge(acc, base, label, bm.apply_simple(base.blob, label), [], api)
        return
    base = bm.base_by_id(seed, bid)
    judge(acc, base, label, bm.apply_simple(base.blob, label), bm.field_map(base.blob), api)


def calibrate() -> None:
    from mc.runner import HarnessError
    from ref import cms

    try:
        cms.calibrate()
    except AssertionError as e:
        raise HarnessError(f"calibration failed: {e!r}") from e


def finish(tier, seed, merged) -> None:
    from mc.runner import Vacuous

    if not merged.outcomes.get("same-plaintext") or not any(k.startswith("error:") for k in merged.outcomes):
        raise Vacuous("expected both harmless and rejected mutations")
