"""C11 — MS-GKDI structures and GetKey stubs have exactly the specified byte layout."""
from __future__ import annotations

import itertools
import typing as t
import uuid

from ref import gkdi, ndr64

ID = "C11"
LEVEL = "exploration"
RULE = (
    "complete field-boundary products per structure against the independent encoders in ref/gkdi.py + ref/ndr64.py, both directions: 32-bit fields {0,1,31,2^31-1,2^31,2^32-1}; strings {'', 'a', "
    "'SP800_108_CTR_HMAC', 'dömäin', non-BMP, 255 chars, leading U+FEFF / U+FFFE, embedded NUL, U+10FFFF}; byte fields {0,1,63,64,65 bytes}; integers {0,1, values with 1/2/all-but-one leading zero bytes, maximal} at key lengths {1,2,32,48,66,256}; "
    "curves P256/P384/P521. KDF parameters, FFC DH parameters, FFC DH key, ECDH key, key identifier (all pairs of fields), group key envelope (all single-field extremes, all pairs of fields over a reduced "
    "alphabet, the all-extreme corner). GetKey request: SD length 0..40 x root key id {absent,present} x (l0,l1,l2) in {-1,0,31,2^31-1}^3. GetKey response: envelope lengths over every residue mod 8 "
    "(domain length 0..8 x forest 0..1) x HRESULT {0, 0x80070005, 0x80070002 with NULL pointer}. Oracle: x.pack() == reference bytes; X.unpack(x.pack()) == x; X.unpack(reference bytes) == x; non-zero "
    "HRESULT => ValueError. Distinct by (structure, field values)."
    ' Also the RFC 5114 group with one field altered at a time; and the GetKey stub as the CLIENT sends it (decoded by the reference DC) for blobs at L0 in {361,0,1} x 8 (L1,L2) positions with 0 at every level, sync and async, and for protect with / without root key id.'
    ' String alphabets include case variants and case-folding traps of the algorithm names.'
)
ASSUME = ["ref/gkdi.py structure codecs calibrated on the captured structures in tests/data and the Windows blobs"]
BOUND = {"quick": "pairs over reduced alphabets", "thorough": "pairs over the full alphabets, triples for the key identifier"}

U32 = [0, 1, 31, 2**31 - 1, 2**31, 2**32 - 1]
STRS = ["", "a", "SP800_108_CTR_HMAC", "sha256", "Sha384", "SHA256 ", "dh", "Dh", "ecdh_p256", "sp800_108_ctr_hmac", "\u017fha512", "SHA\u2075\u00b9\u00b2", "DOMAIN.TEST", "Domain.Test", "I\u0307stanbul.test", "\u0131.test", "dömäin", "\U0001d521.test", "x" * 255, "\ufeffbom.test", "\ufffeab", "a\x00b", "\udbff\udfff".encode("utf-16", "surrogatepass").decode("utf-16") + "z"]
BYTES = [b"", b"\x01", bytes(range(63)), bytes(range(64)), bytes(range(65))]
UUIDS = [uuid.UUID(int=0), uuid.UUID("2e1b932a-4e21-ced3-0b7b-8815aff8335d"), uuid.UUID(int=2**128 - 1)]


def ints_for(kl: int) -> t.List[int]:
    top = 256**kl - 1
    vals = {0, 1, top, top >> 8, top >> 16 if kl > 2 else 1, 255, (0x80 << (8 * (kl - 1))) if kl else 0}
    return sorted(v for v in vals if 0 <= v <= top)


def G():
    import dpapi_ng._blob as B
    import dpapi_ng._gkdi as Gm

    return Gm, B


def chk(acc, name: str, case, mk_obj, ref_bytes: bytes, unpack, eq=None) -> None:
    acc.ev()
    acc.nt((name, ref_bytes, repr(case)[:80]))
    try:
        obj = mk_obj()
        packed = bytes(obj.pack())
    except Exception as e:  # noqa: BLE001
        acc.violate(f"{name}.pack.exc.{type(e).__name__}", [name, case], {"exc": repr(e)})
        return
    if packed != ref_bytes:
        acc.violate(f"{name}.pack.bytes", [name, case], {"got": packed.hex()[:300], "ref": ref_bytes.hex()[:300]})
        return
    for src, data in (("own", packed), ("ref", ref_bytes)):
        try:
            back = unpack(data)
        except Exception as e:  # noqa: BLE001
            acc.violate(f"{name}.unpack.exc.{type(e).__name__}", [name, case], {"exc": repr(e), "bytes": data.hex()[:300]})
            return
        if not (eq(back, obj) if eq else back == obj):
            acc.violate(f"{name}.unpack.value", [name, case], {"decoded": repr(back)[:400], "original": repr(obj)[:400]})
            return
    acc.outcome(name + ":ok")


def shards(tier: str, seed: int):
    return [["kdfparams"], ["dhparams"], ["dhkey"], ["eckey"], ["keyid"], ["envelope", 0], ["envelope", 1], ["envelope", 2], ["envelope", 3], ["getkey"], ["getkey_resp"], ["getkey-wire"]]


def env_base() -> dict:
    return dict(version=1, flags=2, l0=361, l1=17, l2=13, rkid=UUIDS[1], kdf_alg="SP800_108_CTR_HMAC", kdf_params=gkdi.pack_kdf_params("SHA512"), secret_alg="DH",
                secret_params=gkdi.pack_dh_params(4, 65267, 4), priv_len=512, pub_len=2048, domain="domain.test", forest="forest.test", l1_key=bytes(range(64)), l2_key=bytes(range(64, 128)))


ENV_ALPHA = dict(version=U32, flags=U32, l0=U32, l1=U32, l2=U32, rkid=UUIDS, kdf_alg=STRS, kdf_params=BYTES, secret_alg=STRS, secret_params=BYTES, priv_len=U32, pub_len=U32,
                 domain=STRS, forest=STRS, l1_key=BYTES, l2_key=BYTES)


def mk_env(Gm, f: dict):
    return Gm.GroupKeyEnvelope(version=f["version"], flags=f["flags"], l0=f["l0"], l1=f["l1"], l2=f["l2"], root_key_identifier=f["rkid"], kdf_algorithm=f["kdf_alg"], kdf_parameters=f["kdf_params"],
                               secret_algorithm=f["secret_alg"], secret_parameters=f["secret_params"], private_key_length=f["priv_len"], public_key_length=f["pub_len"], domain_name=f["domain"],
                               forest_name=f["forest"], l1_key=f["l1_key"], l2_key=f["l2_key"])


def ref_env(f: dict) -> bytes:
    return gkdi.pack_envelope(gkdi.Envelope(f["version"], f["flags"], f["l0"], f["l1"], f["l2"], f["rkid"], f["kdf_alg"], f["kdf_params"], f["secret_alg"], f["secret_params"], f["priv_len"], f["pub_len"], f["domain"], f["forest"], f["l1_key"], f["l2_key"]))


def run_shard(shard, tier, seed, acc) -> None:
    Gm, B = G()
    what = shard[0]
    if what == "kdfparams":
        for s in STRS + ["SHA1", "SHA256", "SHA384", "SHA512"]:
            chk(acc, "KDFParameters", [s], lambda s=s: Gm.KDFParameters(s), gkdi.pack_kdf_params(s), Gm.KDFParameters.unpack)
        acc.sample({"KDFParameters": "SHA512", "bytes": gkdi.pack_kdf_params("SHA512").hex()})
    elif what == "getkey-wire":
        # the GetKey stub as the CLIENT puts it on the wire (decoded by the reference DC) for blobs at positions that include index 0 at every
        # level, and for protect (-1, -1, -1): exactly the reference NDR64 encoding of (target SD, root key id, L0, L1, L2)
        import dpapi_ng

        from env import refdc, secctx, transport
        from env import seams as seams_
        from mc import vloop
        from ref import cms as cms_, dtyp as dtyp_, ndr64 as ndr64_

        d = seams_.Drbg(("C11wire", seed))
        rk = seams_.make_root(d, "SHA256")
        n = 0
        for sid in ("S-1-5-21-1-2-3-1104", "S-1-1-0"):
            sd = dtyp_.target_sd(dtyp_.parse_sid_string(sid))
            for l0 in (361, 0, 1):
                for pos in ((0, 0), (0, 5), (5, 0), (31, 31), (3, 5), (31, 0), (0, 31), (1, 1)):
                    blob = cms_.ref_encrypt(rk, sid, b"wire", (l0,) + pos, cek=d.bytes(32), gcm_nonce_=d.bytes(12), key_nonce=d.bytes(32))
                    for api in ("sync", "async"):
                        for op in ("unprotect", "protect-named", "protect"):
                            if op != "unprotect" and (l0 != 361 or pos not in ((0, 0), (3, 5))):
                                continue
                            dc = refdc.DC([rk], now=(400, 3, 7))
                            kw = dict(server="dc", username="u", password="p", auth_protocol="ntlm", cache=dpapi_ng.KeyCache())
                            case = ["getkey-wire", sid, l0, list(pos), api, op]
                            with seams_.clock((400 * 1024 + 3 * 32 + 7) * gkdi.B + 1), transport.network(dc), secctx.scripted_client(lambda u, p, **k: secctx.ScriptedContext([b"C1"], 16)):
                                try:
                                    if op == "unprotect":
                                        r = dpapi_ng.ncrypt_unprotect_secret(blob, **kw) if api == "sync" else vloop.run(dpapi_ng.async_ncrypt_unprotect_secret(blob, **kw))
                                        want = ndr64_.getkey_request(sd, rk.rkid, l0, pos[0], pos[1])
                                    else:
                                        if op == "protect-named":
                                            kw["root_key_identifier"] = rk.rkid
                                        r = dpapi_ng.ncrypt_protect_secret(b"wire", sid, **kw) if api == "sync" else vloop.run(dpapi_ng.async_ncrypt_protect_secret(b"wire", sid, **kw))
                                        want = ndr64_.getkey_request(sd, rk.rkid if op == "protect-named" else None, -1, -1, -1)
                                except Exception as e:  # noqa: BLE001
                                    acc.violate(f"getkey-wire.exc.{type(e).__name__}", case, {"exc": repr(e)[:200]})
                                    n += 1
                                    continue
                            reqs = [e for e in dc.transcript if e.get("dir") == "c2s" and e.get("kind") == "isd" and e.get("what") == "request"]
                            n += 1
                            acc.nt(tuple(map(str, case)))
                            if len(reqs) != 1 or reqs[0].get("stub") != want:
                                acc.violate("getkey-wire.stub", case, {"requests": len(reqs), "got": (reqs[0].get("stub") or b"").hex()[-80:] if reqs else None, "decoded": repr(reqs[0].get("getkey"))[-120:] if reqs else None, "expected_tail": want.hex()[-80:]})
                            else:
                                acc.outcome("getkey-wire-ok")
        acc.ev(n)
        acc.sample({"GetKey on the wire": "blobs at L0 in {361, 0, 1} x 8 (L1, L2) positions incl. 0 at every level; protect with / without root key id", "apis": ["sync", "async"]})
    elif what == "dhparams":
        for kl in (1, 2, 32, 48, 66, 256):
            for p in ints_for(kl):
                for g in ints_for(kl):
                    chk(acc, "FFCDHParameters", [kl, str(p), str(g)], lambda kl=kl, p=p, g=g: Gm.FFCDHParameters(key_length=kl, field_order=p, generator=g), gkdi.pack_dh_params(kl, p, g), Gm.FFCDHParameters.unpack)
        # the well-known group (RFC 5114 2.3, the KDS default) with ONE field altered at a time: a recognised prime proves nothing about the generator
        P_, G_ = gkdi.RFC5114_P, gkdi.RFC5114_G
        for kl, p, g in [(256, P_, G_)] + [(256, P_, g2) for g2 in (0, 1, 2, G_ + 1, G_ - 1, G_ >> 8, G_ ^ 1, P_ - 1, P_)] + [(256, p2, G_) for p2 in (P_ + 2, P_ - 2, P_ >> 8, P_ ^ (1 << 2047), G_)] + [(257, P_, G_), (512, P_, 2)]:
            chk(acc, "FFCDHParameters", [kl, str(p), str(g)], lambda kl=kl, p=p, g=g: Gm.FFCDHParameters(key_length=kl, field_order=p, generator=g), gkdi.pack_dh_params(kl, p, g), Gm.FFCDHParameters.unpack)
        acc.sample({"FFCDHParameters": {"key_length": 2, "p": 65267, "g": 4}, "bytes": gkdi.pack_dh_params(2, 65267, 4).hex()})
    elif what == "dhkey":
        for kl in (1, 2, 32, 48, 66, 256):
            vals = ints_for(kl)
            for p, g, y in itertools.product(vals, vals[:4], vals):
                chk(acc, "FFCDHKey", [kl, str(p), str(g), str(y)], lambda kl=kl, p=p, g=g, y=y: Gm.FFCDHKey(key_length=kl, field_order=p, generator=g, public_key=y), gkdi.pack_dh_key(kl, p, g, y), Gm.FFCDHKey.unpack)
        P_, G_ = gkdi.RFC5114_P, gkdi.RFC5114_G
        for kl, p, g in [(256, P_, G_)] + [(256, P_, g2) for g2 in (0, 1, 2, G_ + 1, G_ - 1, G_ >> 8, G_ ^ 1, P_ - 1, P_)] + [(256, p2, G_) for p2 in (P_ + 2, P_ - 2, P_ >> 8, P_ ^ (1 << 2047), G_)] + [(257, P_, G_), (512, P_, 2)]:
            for y in (1, 2, G_, P_ - 1, pow(G_, 0xC0FFEE, P_)):
                chk(acc, "FFCDHKey", [kl, str(p), str(g), str(y)], lambda kl=kl, p=p, g=g, y=y: Gm.FFCDHKey(key_length=kl, field_order=p, generator=g, public_key=y), gkdi.pack_dh_key(kl, p, g, y), Gm.FFCDHKey.unpack)
        acc.sample({"FFCDHKey": {"key_length": 2, "p": 65267, "g": 4, "y": 1}, "bytes": gkdi.pack_dh_key(2, 65267, 4, 1).hex()})
    elif what == "eckey":
        for curve, kl in (("P256", 32), ("P384", 48), ("P521", 66), ("P256", 33), ("P384", 1)):
            vals = ints_for(kl)
            for x, y in itertools.product(vals, vals):
                chk(acc, "ECDHKey", [curve, kl, str(x), str(y)], lambda curve=curve, kl=kl, x=x, y=y: Gm.ECDHKey(curve_name=curve, key_length=kl, x=x, y=y), gkdi.pack_ec_key(curve, kl, x, y), Gm.ECDHKey.unpack)
        acc.sample({"ECDHKey": {"curve": "P256", "x": 1, "y": 255}})
    elif what == "keyid":
        base = dict(version=1, flags=2, l0=361, l1=17, l2=13, rkid=UUIDS[1], key_info=bytes(range(32)), domain="domain.test", forest="forest.test")
        alpha = dict(version=U32, flags=U32, l0=U32, l1=U32, l2=U32, rkid=UUIDS, key_info=BYTES + [bytes(800)], domain=STRS, forest=STRS)

        def one(f):
            chk(acc, "KeyIdentifier", {k: (v if not isinstance(v, bytes) else len(v)) for k, v in f.items() if f[k] != base[k]},
                lambda f=f: B.KeyIdentifier(version=f["version"], flags=f["flags"], l0=f["l0"], l1=f["l1"], l2=f["l2"], root_key_identifier=f["rkid"], key_info=f["key_info"], domain_name=f["domain"], forest_name=f["forest"]),
                gkdi.pack_keyid(gkdi.KeyId(f["version"], f["flags"], f["l0"], f["l1"], f["l2"], f["rkid"], f["key_info"], f["domain"], f["forest"])), B.KeyIdentifier.unpack)

        one(base)
        for a, b in itertools.combinations(alpha, 2):
            for va in alpha[a]:
                for vb in alpha[b]:
                    one({**base, a: va, b: vb})
        if tier == "thorough":
            for a, b, c in itertools.combinations(alpha, 3):
                for va in alpha[a][-3:]:
                    for vb in alpha[b][-3:]:
                        for vc in alpha[c][-3:]:
                            one({**base, a: va, b: vb, c: vc})
        one({k: v[-1] for k, v in alpha.items()})
        acc.sample({"KeyIdentifier": "all pairs of field values around a base, plus the all-extreme corner"})
    elif what == "envelope":
        part = shard[1]
        base = env_base()
        names = list(ENV_ALPHA)

        def one(f):
            chk(acc, "GroupKeyEnvelope", {k: (v if not isinstance(v, bytes) else len(v)) for k, v in f.items() if f[k] != base[k]}, lambda f=f: mk_env(Gm, f), ref_env(f), Gm.GroupKeyEnvelope.unpack)

        if part == 0:
            one(base)
            for a in names:
                for va in ENV_ALPHA[a]:
                    one({**base, a: va})
            one({k: v[-1] for k, v in ENV_ALPHA.items()})
            one({k: v[0] for k, v in ENV_ALPHA.items()})
        red = {k: v for k, v in ENV_ALPHA.items()}
        pairs = list(itertools.combinations(names, 2))
        for i, (a, b) in enumerate(pairs):
            if i % 4 != part:
                continue
            for va in red[a]:
                for vb in red[b]:
                    one({**base, a: va, b: vb})
        acc.sample({"GroupKeyEnvelope": "single-field extremes, all pairs of fields, both corners", "part": part})
    elif what == "getkey":
        for sdlen in range(0, 41):
            sd = bytes((i * 3 + 1) & 0xFF for i in range(sdlen))
            for rk in (None, UUIDS[1], uuid.UUID(int=0), uuid.UUID(int=2**128 - 1)):
                for l0, l1, l2 in itertools.product((-1, 0, 31, 2**31 - 1), repeat=3):
                    chk(acc, "GetKey", [sdlen, bool(rk), l0, l1, l2], lambda sd=sd, rk=rk, l0=l0, l1=l1, l2=l2: Gm.GetKey(sd, rk, l0, l1, l2), ndr64.getkey_request(sd, rk, l0, l1, l2), Gm.GetKey.unpack)
        # GetKey is a mutable dataclass: packing, changing a field and packing again must encode the new values
        g = Gm.GetKey(b"abc", None, -1, -1, -1)
        seq = [("target_sd", b"abcdefgh"), ("root_key_id", UUIDS[1]), ("l0_key_id", 361), ("l1_key_id", 0), ("l2_key_id", 31), ("target_sd", b""), ("root_key_id", None), ("l0_key_id", -1)]
        acc.ev()
        if bytes(g.pack()) != ndr64.getkey_request(b"abc", None, -1, -1, -1):
            acc.violate("GetKey.repack.bytes", ["GetKey-repack", 0], {})
        for i_, (fld, val) in enumerate(seq):
            setattr(g, fld, val)
            acc.ev()
            want = ndr64.getkey_request(g.target_sd, g.root_key_id, g.l0_key_id, g.l1_key_id, g.l2_key_id)
            if bytes(g.pack()) != want:
                acc.violate("GetKey.repack.bytes", ["GetKey-repack", i_ + 1, fld], {"got": bytes(g.pack()).hex()[:200], "ref": want.hex()[:200]})
        # byte-like arguments in every form a caller may hold them (bytes / bytearray / memoryview): packing twice gives the reference
        # bytes both times and leaves the caller's buffer and the object's field untouched
        for sdlen in range(0, 26):
            sd = bytes((i * 5 + 2) & 0xFF for i in range(sdlen))
            for form in (bytearray, memoryview):
                for rk in (None, UUIDS[1]):
                    arg = form(sd)
                    acc.ev()
                    want = ndr64.getkey_request(sd, rk, 361, 3, 5)
                    try:
                        g2 = Gm.GetKey(arg, rk, 361, 3, 5)
                        outs = [bytes(g2.pack()), bytes(g2.pack()), bytes(Gm.GetKey(arg, rk, 361, 3, 5).pack())]
                    except Exception as e:  # noqa: BLE001
                        acc.violate(f"GetKey.forms.exc.{type(e).__name__}", ["GetKey-forms", sdlen, form.__name__, bool(rk)], {"exc": repr(e)})
                        continue
                    if bytes(arg) != sd or bytes(g2.target_sd) != sd:
                        acc.violate("GetKey.forms.argument-mutated", ["GetKey-forms", sdlen, form.__name__, bool(rk)], {"arg_len_now": len(bytes(arg)), "field_len_now": len(bytes(g2.target_sd))})
                    elif any(o != want for o in outs):
                        acc.violate("GetKey.forms.bytes", ["GetKey-forms", sdlen, form.__name__, bool(rk)], {"which": [o == want for o in outs]})
        for l in (-(2**31), 2**31 - 1):
            chk(acc, "GetKey", [4, True, l, l, l], lambda l=l: Gm.GetKey(b"abcd", UUIDS[2], l, l, l), ndr64.getkey_request(b"abcd", UUIDS[2], l, l, l), Gm.GetKey.unpack)
        acc.sample({"GetKey": {"sd_len": 5, "root_key_id": None, "l0,l1,l2": [-1, -1, -1]}, "bytes": ndr64.getkey_request(b"\x01\x02\x03\x04\x05", None, -1, -1, -1).hex()})
    elif what == "getkey_resp":
        base = env_base()
        residues = set()
        for dl in range(0, 9):
            for fl in range(0, 2):
                f = {**base, "domain": "d" * dl, "forest": "f" * fl}
                envb = ref_env(f)
                residues.add(len(envb) % 8)
                acc.ev()
                acc.nt(("resp", dl, fl))
                try:
                    got = Gm.GetKey.unpack_response(ndr64.getkey_response(envb, 0))
                    if got != mk_env(Gm, f):
                        acc.violate("GetKey.unpack_response.value", ["resp", dl, fl], {"decoded": repr(got)[:300]})
                except Exception as e:  # noqa: BLE001
                    acc.violate(f"GetKey.unpack_response.exc.{type(e).__name__}", ["resp", dl, fl], {"exc": repr(e)})
                for hres, body in ((0x80070005, envb), (0x80070002, None), (1, envb)):
                    acc.ev()
                    try:
                        Gm.GetKey.unpack_response(ndr64.getkey_response(body, hres))
                        acc.violate("GetKey.unpack_response.hresult-ignored", ["resp-err", dl, fl, hres], {})
                    except ValueError:
                        acc.outcome("hresult-rejected")
                    except Exception as e:  # noqa: BLE001
                        acc.violate(f"GetKey.unpack_response.hresult.exc.{type(e).__name__}", ["resp-err", dl, fl, hres], {"exc": repr(e)})
        # and through the client stack: sealed replies whose auth padding is 0, 4, 8 or 12 (reference DC, scripted context)
        import dpapi_ng

        from env import refdc, secctx, seams as _seams, transport
        from ref import cms

        _seams.block_network()
        d_ = _seams.Drbg(("C11stack", seed))
        rk = _seams.make_root(d_, "SHA256")
        pads = set()
        for dl in range(0, 12):
            dom = "d" * dl
            dc = refdc.DC([rk], now=(361, 10, 12), domain=dom, forest="f")
            blob = cms.ref_encrypt(rk, "S-1-5-21-1-2-3-1104", b"c11", (361, 3, 5), cek=d_.bytes(32), gcm_nonce_=d_.bytes(12), key_nonce=d_.bytes(32), domain=dom, forest="f")
            acc.ev()
            acc.nt(("stack", dl))
            with transport.network(dc), secctx.scripted_client(lambda u, p, **kw: secctx.ScriptedContext([b"C1"], 16)):
                try:
                    v = dpapi_ng.ncrypt_unprotect_secret(blob, server="dc", username="u", password="p", auth_protocol="ntlm")
                    if bytes(v) != b"c11":
                        acc.violate("reply-through-stack.value", ["stack", dl], {"got": repr(bytes(v))})
                except Exception as e:  # noqa: BLE001
                    acc.violate(f"reply-through-stack.exc.{type(e).__name__}", ["stack", dl], {"exc": repr(e), "pad": [e_.get("pad") for e_ in dc.transcript if e_.get("what") == "getkey_reply"]})
            pads.update(e_["pad"] for e_ in dc.transcript if e_.get("what") == "getkey_reply")
        acc.stat_max("reply_auth_pads_through_stack", len(pads))
        if 0 not in pads or len(pads) < 4:
            from mc.runner import Vacuous

            raise Vacuous(f"reply auth paddings through the stack: {sorted(pads)}")
        if len(residues) < 4:
            from mc.runner import Vacuous

            raise Vacuous(f"envelope length residues mod 8 covered: {sorted(residues)}")
        acc.stat_max("envelope_length_residues_mod8", len(residues))
        acc.sample({"GetKey response": "envelope lengths with domain 0..8 chars x forest 0..1", "residues_mod_8": sorted(residues)})
    else:
        raise AssertionError(shard)


def replay(case, seed, acc) -> None:
    # cases are tiny and deterministic: re-run the whole family and keep only the matching key
    if case[0] in ("stack",):
        run_shard(["getkey_resp"], "quick", seed, acc)
        for k in list(acc.violations):
            acc.violations[k] = [e for e in acc.violations[k] if e["case"] == case]
            if not acc.violations[k]:
                del acc.violations[k]
        acc.violation_count = sum(len(v) for v in acc.violations.values())
        return
    fam = {"GetKey-repack": ["getkey"], "GetKey-forms": ["getkey"], "KDFParameters": ["kdfparams"], "FFCDHParameters": ["dhparams"], "FFCDHKey": ["dhkey"], "ECDHKey": ["eckey"], "KeyIdentifier": ["keyid"], "GetKey": ["getkey"], "resp": ["getkey_resp"], "resp-err": ["getkey_resp"]}
    name = case[0]
    if name == "GroupKeyEnvelope":
        for p in range(4):
            run_shard(["envelope", p], "quick", seed, acc)
    else:
        run_shard(fam[name], "quick", seed, acc)
    for k in list(acc.violations):
        acc.violations[k] = [e for e in acc.violations[k] if e["case"] == case or e["case"] == list(case)]
        if not acc.violations[k]:
            del acc.violations[k]
    acc.violation_count = sum(len(v) for v in acc.violations.values())


def calibrate() -> None:
    from mc.runner import HarnessError

    try:
        gkdi.calibrate()
    except AssertionError as e:
        raise HarnessError(f"calibration failed: {e!r}") from e
