"""C03 — KEK derivation agrees on both sides and with an independent implementation."""
from __future__ import annotations

import typing as t

from env import seams
from ref import dtyp, ec, gkdi

ID = "C03"
LEVEL = "exploration"
RULE = (
    "complete enumeration with entropy as a chosen environment answer: nonce mode: 11 nonces x 64 L2 seeds x 4 hashes; DH small groups "
    "(16-bit safe prime 65267, key_length 2 and 4): EVERY 2-byte ephemeral private key x group keys x hashes; DH RFC5114 group: 13 structured ephemeral keys "
    "x 4 hashes x 4 group keys; ECDH P-256/P-384: every ephemeral scalar 1..N plus {n-1,n-2,2^(bits-1)} x group keys x hashes. Each case: "
    "GroupKeyEnvelope.new_kek() on the encrypting side and get_kek(key_identifier) on the seed-holding side must both equal the reference KEK, and key_info must "
    "equal the reference fixed-width public-key / nonce encoding. A cross-hash part re-uses the same L2 seed and peer key under each KDF hash in all 24 orders within one process (state kept between calls must not leak). Distinct by (config, group key, ephemeral); counts of leading-zero shared secrets / coordinates "
    "are measured and the run is vacuous if the small-group (and, thorough, the EC) counts are 0."
    ' Nonce mode also with nonces that spell other structures (DH / ECDH key blob magics, a complete 32-octet FFC DH key blob, KDSK, a DER header).'
    ' Also equal DH public values under key lengths 2, 8, 16, 4, 2 in one process; nonce-mode envelopes whose seed keys have remarkable content (all zero, all ones, zero runs, text) at five positions.'
)
ASSUME = ["os.urandom supplies the ephemeral private key / nonce (if the script is not consumed the check falls back to the decrypt-side reference only)", "ref/gkdi + ref/ec calibrated (Windows vectors, cryptography point multiplication)"]
BOUND = {
    "quick": "EC scalars 1..256 x 4 group keys; small DH: all 65536 exponents x 1 group key (SHA256) + 4096 x 4 hashes",
    "thorough": "EC scalars 1..2048 x 32 group keys; small DH: all 65536 exponents x 16 group keys x 4 hashes",
}

HASHES = ["SHA1", "SHA256", "SHA384", "SHA512"]
SMALL_P, SMALL_G = 65267, 4
SD = dtyp.target_sd(dtyp.Sid(1, 5, (21, 1, 2, 3, 1105)))


def shards(tier: str, seed: int):
    out: t.List[t.Any] = [["xhash", alg] for alg in ("DHsmall", "DH", "ECDH_P256", "ECDH_P384", "nonce")]
    for h in HASHES:
        out.append(["nonce", h])
        out.append(["dhbig", h])
        # key lengths above 256 (groups whose announced key length is padded beyond the size of p: 257, 300 octets; RFC 5114 at 264)
        out += [["dhsmall", h, kl, 0, 2, 0, 300] for kl in (257, 300)]
        # private keys much WIDER than the group's key length (512-bit exponents in a 2- / 4-octet group)
        out += [["dhsmall", h, kl, 0, 2, 0, 200, 512] for kl in (2, 4)]
        out.append(["dhbig", h, 264])
        out.append(["dhwidths", h])
        out.append(["seedcontent", h])
    if tier == "quick":
        out += [["dhsmall", "SHA256", kl, 0, 1, 0, 65536] for kl in (2, 4)]
        out += [["dhsmall", h, kl, 1, 2, 0, 4096] for h in HASHES for kl in (2, 4)]
        for curve in ("P256", "P384"):
            for h in HASHES:
                out.append(["ec", curve, h, 0, 4, 256])
    else:
        for h in HASHES:
            for kl in (2, 4):
                for g0 in range(0, 16, 4):
                    out.append(["dhsmall", h, kl, g0, g0 + 4, 0, 65536])
        for curve in ("P256", "P384"):
            for h in HASHES:
                for g0 in range(0, 32, 4):
                    out.append(["ec", curve, h, g0, g0 + 4, 2048])
    return out


def root(seed: int, h: str, alg: str, params: bytes, priv: int, pub: int) -> gkdi.RootKey:
    d = seams.Drbg(("C03", seed, alg))
    return gkdi.RootKey(d.uuid(), d.bytes(64), h, alg, params, priv, pub)


def envs(G, rk: gkdi.RootKey, ch: gkdi.Chain, pos: t.Tuple[int, int], pubkey: t.Optional[bytes]):
    """(encrypt-side envelope, seed-holding envelope) for lattice position pos"""
    l1, l2 = pos
    common = dict(
        version=1, l0=ch.l0, l1=l1, l2=l2, root_key_identifier=rk.rkid, kdf_algorithm="SP800_108_CTR_HMAC",
        kdf_parameters=gkdi.pack_kdf_params(rk.hash_name), secret_algorithm=rk.secret_alg, secret_parameters=rk.params(),
        private_key_length=rk.priv_len, public_key_length=rk.pub_len, domain_name="emea.corp.test" if (l1 + l2) % 3 else "d", forest_name="f",
    )
    # flag values: bit 0 = "L2 key field holds the group public key"; bit 1 is set by Windows in both forms (its public-key key
    # identifiers carry 3, seed-key envelopes 2) and clear in other captures: both spellings of each form are used, by position
    seed_env = G.GroupKeyEnvelope(flags=2 if (l1 + 2 * l2) % 3 else 0, l1_key=(ch.l1(l1 - 1) if l1 else b"") if l2 != 31 else ch.l1(l1), l2_key=ch.l2(l1, l2), **common)
    def wire(env):
        # every second position: the envelope as it comes off the wire (reference encoder -> the library's decoder), names of different lengths
        if (l1 + l2) % 2 == 0:
            return env
        ref = gkdi.pack_envelope(gkdi.Envelope(env.version, env.flags, env.l0, env.l1, env.l2, env.root_key_identifier, env.kdf_algorithm, bytes(env.kdf_parameters), env.secret_algorithm,
                                              bytes(env.secret_parameters or b""), env.private_key_length, env.public_key_length, env.domain_name, env.forest_name, bytes(env.l1_key), bytes(env.l2_key)))
        return G.GroupKeyEnvelope.unpack(ref)

    if pubkey is None:
        e_ = wire(seed_env)
        return e_, e_
    return wire(G.GroupKeyEnvelope(flags=3 if (l1 + l2) % 2 else 1, l1_key=b"", l2_key=pubkey, **common)), wire(seed_env)


def run_case(enc_env, dec_env, rnd: bytes):
    ent = seams.Entropy()
    ent.script = [rnd]
    with seams.entropy(ent):
        kek_e, kid = enc_env.new_kek()
    consumed = not ent.script
    kek_d = dec_env.get_kek(kid)
    return kek_e, kek_d, kid, consumed


def judge(acc, case, kek_e, kek_d, kid, consumed, ref_kek: bytes, ref_info: t.Optional[bytes]) -> None:
    if kek_e != ref_kek:
        acc.violate("kek.encrypt-side", case, {"got": kek_e.hex(), "ref": ref_kek.hex(), "dec": kek_d.hex()})
    if kek_d != ref_kek:
        acc.violate("kek.decrypt-side", case, {"got": kek_d.hex(), "ref": ref_kek.hex(), "enc": kek_e.hex()})
    if consumed and ref_info is not None and bytes(kid.key_info) != ref_info:
        acc.violate("key_info.encoding", case, {"got": bytes(kid.key_info).hex()[:200], "ref": ref_info.hex()[:200]})
    if not consumed:
        acc.stat_add("entropy_script_not_consumed")
    acc.outcome("agree" if kek_e == kek_d == ref_kek else "disagree")


def lattice_pos(i: int) -> t.Tuple[int, int]:
    return [(0, 0), (31, 31), (17, 13), (5, 31), (30, 0), (1, 1), (16, 16), (31, 0)][i % 8] if i < 8 else ((i * 7) % 32, (i * 11 + 3) % 32)


def shard_nonce(G, h, seed, acc) -> None:
    rk = root(seed, h, "DH", b"", 512, 2048)
    d = seams.Drbg(("C03n", seed))
    nonces = [b"\x00" * 32, b"\xff" * 32, b"\x00" + b"\x01" * 31] + [d.bytes(32) for _ in range(8)]
    # random nonces that happen to look like something else: the magic of a DH / ECDH key blob, of a key identifier, an ASN.1 header, and a
    # byte-for-byte well-formed FFC DH key blob of a 64-bit group (magic, key length 8, p, g, y) - a nonce is opaque, whatever it spells
    import struct as _st

    nonces += [m + d.bytes(32 - len(m)) for m in (b"DHPB", b"DHPM", b"ECK1", b"ECK3", b"ECK5", b"ECK", b"KDSK", b"\x30\x1e", b"\x01\x00\x00\x00KDSK")]
    nonces.append(b"DHPB" + _st.pack("<I", 8) + (0xFFFFFFFFFFFFFFC5).to_bytes(8, "big") + (2).to_bytes(8, "big") + (0x1234567890ABCDEF).to_bytes(8, "big"))
    nonces.append(b"ECK1" + _st.pack("<I", 12) + d.bytes(24))
    n = 0
    for gi in range(64):
        pos = lattice_pos(gi)
        ch = gkdi.Chain(h, rk.key, rk.rkid, SD, 361 + gi % 2)
        enc_env, dec_env = envs(G, rk, ch, pos, None)
        for nonce in nonces:
            case = ["nonce", h, gi, nonce.hex()]
            try:
                kek_e, kek_d, kid, consumed = run_case(enc_env, dec_env, nonce)
            except Exception as e:  # noqa: BLE001
                acc.violate(f"exc.{type(e).__name__}", case, {"exc": repr(e)})
                continue
            info = bytes(kid.key_info)
            judge(acc, case, kek_e, kek_d, kid, consumed, gkdi.kek_nonce(h, ch.l2(*pos), info), nonce)
            if len(info) != 32:
                acc.violate("nonce.length", case, {"len": len(info)})
            n += 1
    acc.ev(n)
    acc.nt_counted(n)
    acc.sample({"mode": "nonce", "hash": h, "nonce": nonces[2].hex()})


def shard_dh(G, h, seed, acc, key_length, p, g, priv_bits, pub_bits, gk_range, eph_values, tag) -> None:
    params = gkdi.pack_dh_params(key_length, p, g)
    rk = root(seed, h, "DH", params, priv_bits, pub_bits)
    plen = -(-priv_bits // 8)
    n = 0
    for gi in gk_range:
        pos = lattice_pos(gi)
        ch = gkdi.Chain(h, rk.key, rk.rkid, SD, 361)
        x = gkdi.group_private_key(h, ch.l2(*pos), "DH", priv_bits)
        y = pow(g, x, p)
        pub = gkdi.pack_dh_key(key_length, p, g, y)
        enc_env, dec_env = envs(G, rk, ch, pos, pub)
        for e in eph_values:
            case = [tag, h, key_length, gi, e]
            try:
                kek_e, kek_d, kid, consumed = run_case(enc_env, dec_env, e.to_bytes(plen, "big"))
            except Exception as ex:  # noqa: BLE001
                acc.violate(f"exc.{type(ex).__name__}", case, {"exc": repr(ex)})
                continue
            if consumed:
                z_int = pow(y, e, p)
                ref_info = gkdi.pack_dh_key(key_length, p, g, pow(g, e, p))
            else:
                _, _, _, epub = gkdi.unpack_dh_key(bytes(kid.key_info))
                z_int = pow(epub, x, p)
                ref_info = None
            z = z_int.to_bytes(key_length, "big")
            if z[0] == 0:
                acc.stat_add(f"{tag}_shared_secret_leading_zero")
            if consumed and pow(g, e, p).to_bytes(key_length, "big")[0] == 0:
                acc.stat_add(f"{tag}_public_value_leading_zero")
            judge(acc, case, kek_e, kek_d, kid, consumed, gkdi.kek_from_shared(h, z, "SHA256"), ref_info)
            n += 1
    acc.ev(n)
    acc.nt_counted(n)


def shard_ec(G, curve, h, g0, g1, kmax, seed, acc) -> None:
    c = ec.CURVES[curve]
    alg = "ECDH_" + curve
    bits = c.size * 8
    rk = root(seed, h, alg, b"", bits, bits)
    special = [c.n - 1, c.n - 2, 2 ** (bits - 1)]
    n = 0
    # ephemeral public points k*G by repeated addition (independent of double-and-add)
    for gi in range(g0, g1):
        pos = lattice_pos(gi)
        ch = gkdi.Chain(h, rk.key, rk.rkid, SD, 361)
        x = gkdi.group_private_key(h, ch.l2(*pos), alg, bits)
        if not 1 <= x < c.n:
            acc.stat_add("group_private_key_out_of_range_skipped")
            continue
        q = ec.mul(c, x, c.g)
        assert q is not None
        # the group public key with its coordinates in fields WIDER than the curve (leading zero octets), for three of four group keys
        padk = (0, 1, 4, 16)[gi % 4]
        pub = gkdi.pack_ec_key(curve, c.size + padk, q[0], q[1])
        enc_env, dec_env = envs(G, rk, ch, pos, pub)
        kg: ec.Point = None
        kq: ec.Point = None
        ks = list(range(1, kmax + 1)) + special
        for k in ks:
            if k <= kmax:
                kg = ec.add(c, kg, c.g)
                kq = ec.add(c, kq, q)
                eg, eq = kg, kq
            else:
                eg, eq = ec.mul(c, k, c.g), ec.mul(c, k, q)
            assert eg is not None and eq is not None
            case = ["ec", curve, h, gi, str(k)]
            try:
                kek_e, kek_d, kid, consumed = run_case(enc_env, dec_env, k.to_bytes(c.size, "big"))
            except Exception as ex:  # noqa: BLE001
                acc.violate(f"exc.{type(ex).__name__}", case, {"exc": repr(ex)})
                continue
            if consumed:
                zx = eq[0]
                ref_info = gkdi.pack_ec_key(curve, c.size, eg[0], eg[1]) if padk == 0 else None
                if eg[0].to_bytes(c.size, "big")[0] == 0 or eg[1].to_bytes(c.size, "big")[0] == 0:
                    acc.set_add("ec_ephemeral_point_leading_zero", (curve, k))
            else:
                _, _, px, py = gkdi.unpack_ec_key(bytes(kid.key_info))
                sp = ec.mul(c, x, (px, py))
                assert sp is not None
                zx = sp[0]
                ref_info = None
            z = zx.to_bytes(c.size, "big")
            if z[0] == 0:
                acc.stat_add("ec_shared_secret_leading_zero")
            judge(acc, case, kek_e, kek_d, kid, consumed, gkdi.kek_from_shared(h, z, gkdi.ECDH_HASH[curve]), ref_info)
            n += 1
    acc.ev(n)
    acc.nt_counted(n)
    acc.sample({"mode": alg, "hash": h, "ephemeral_scalars": f"1..{kmax} + n-1, n-2, 2^{bits-1}", "group_keys": [g0, g1]})


def shard_xhash(G, alg: str, seed: int, acc) -> None:
    """the SAME L2 seed / peer key material is used under each KDF hash in turn, in every order, within one process"""
    import itertools

    d = seams.Drbg(("C03x", seed, alg))
    seeds = [d.bytes(64) for _ in range(2)]
    n = 0
    fixed_nonce = d.bytes(32)
    fixed_e_raw = int.from_bytes(d.bytes(66), "big")
    for oi, order in enumerate(itertools.permutations(HASHES)):
        for s_i, l2seed in enumerate(seeds):
            for h in order:
                case = ["xhash", alg, list(order), s_i, h]
                # odd orders re-use the very same nonce / ephemeral key under every hash (identical key identifier), even ones draw fresh values
                if alg == "nonce":
                    nonce = fixed_nonce if oi % 2 else d.bytes(32)
                    enc_env = dec_env = G.GroupKeyEnvelope(version=1, flags=2, l0=361, l1=3, l2=4, root_key_identifier=d.uuid(), kdf_algorithm="SP800_108_CTR_HMAC", kdf_parameters=gkdi.pack_kdf_params(h),
                                                           secret_algorithm="DH", secret_parameters=b"", private_key_length=512, public_key_length=2048, domain_name="", forest_name="", l1_key=b"", l2_key=l2seed)
                    rnd, ref_kek, ref_info = nonce, gkdi.kek_nonce(h, l2seed, nonce), nonce
                else:
                    if alg == "DHsmall":
                        salg, params, priv, pub, plen = "DH", gkdi.pack_dh_params(2, SMALL_P, SMALL_G), 16, 16, 2
                    elif alg == "DH":
                        salg, params, priv, pub, plen = "DH", gkdi.pack_dh_params(256, gkdi.RFC5114_P, gkdi.RFC5114_G), 512, 2048, 64
                    else:
                        c = ec.CURVES[alg.split("_")[1]]
                        salg, params, priv, pub, plen = alg, b"", c.size * 8, c.size * 8, c.size
                    x = gkdi.group_private_key(h, l2seed, salg, priv)
                    if salg != "DH" and not 1 <= x < ec.CURVES[alg.split("_")[1]].n:
                        continue
                    gpub = gkdi.public_key(salg, params, x)
                    common = dict(version=1, l0=361, l1=3, l2=4, root_key_identifier=uuid_const, kdf_algorithm="SP800_108_CTR_HMAC", kdf_parameters=gkdi.pack_kdf_params(h), secret_algorithm=salg,
                                  secret_parameters=params, private_key_length=priv, public_key_length=pub, domain_name="", forest_name="")
                    enc_env = G.GroupKeyEnvelope(flags=1 if (oi + s_i) % 2 else 3, l1_key=b"", l2_key=gpub, **common)
                    dec_env = G.GroupKeyEnvelope(flags=2, l1_key=b"", l2_key=l2seed, **common)
                    e = 3 + (fixed_e_raw if oi % 2 else int.from_bytes(d.bytes(plen), "big")) % (SMALL_P - 5 if alg == "DHsmall" else 2 ** (8 * plen - 2))
                    rnd = e.to_bytes(plen, "big")
                    z, sh = gkdi.shared_secret(salg, e, gpub)
                    ref_kek, ref_info = gkdi.kek_from_shared(h, z, sh), gkdi.public_key(salg, params, e)
                try:
                    kek_e, kek_d, kid, consumed = run_case(enc_env, dec_env, rnd)
                except Exception as ex:  # noqa: BLE001
                    acc.violate(f"exc.{type(ex).__name__}", case, {"exc": repr(ex)})
                    continue
                judge(acc, case, kek_e, kek_d, kid, consumed, ref_kek, ref_info if consumed else None)
                n += 1
    acc.ev(n)
    acc.nt_counted(n)
    acc.sample({"cross_hash": alg, "same L2 seed under": "all 24 orders of the 4 KDF hashes"})


import uuid as _uuid

uuid_const = _uuid.UUID("11111111-2222-3333-4444-555555555555")


def run_shard(shard, tier, seed, acc) -> None:
    import dpapi_ng._gkdi as G

    kind = shard[0]
    if kind == "xhash":
        shard_xhash(G, shard[1], seed, acc)
        return
    if kind == "nonce":
        shard_nonce(G, shard[1], seed, acc)
    elif kind == "dhsmall":
        _, h, kl, g0, g1, e0, e1 = shard[:7]
        pb = shard[7] if len(shard) > 7 else 16
        ephs = range(e0, e1) if pb == 16 else [e_ + (0x5A << (pb - 8)) + (e_ << 200) for e_ in range(e0, e1)]
        shard_dh(G, h, seed, acc, kl, SMALL_P, SMALL_G, pb, kl * 8, range(g0, g1), ephs, "dhsmall" if pb == 16 else f"dhsmallw{pb}")
        acc.sample({"mode": "DH small group", "p": SMALL_P, "g": SMALL_G, "key_length": kl, "hash": h, "ephemeral": f"all {e1-e0} two-byte values"})
    elif kind == "seedcontent":
        # seed keys are opaque octets: envelopes (as a DC might hand them out) whose L2 / L1 keys have remarkable CONTENT - all zero, all ones,
        # zero runs at either end, a text - at positions with L2 < 31 and L2 = 31: both sides derive the reference KEK from exactly those octets
        h = shard[1]
        rk = root(seed, h, "DH", b"", 512, 2048)
        d = seams.Drbg(("C03sc", seed))
        contents = [b"\x00" * 64, b"\xff" * 64, b"\x00" * 63 + b"\x01", b"\x01" + b"\x00" * 63, b"\x00" * 32 + d.bytes(32), d.bytes(32) + b"\x00" * 32, (b"KDSK" * 16), b" " * 64]
        n = 0
        for pos in ((5, 9), (0, 0), (31, 0), (5, 31), (0, 31)):
            for ci, content in enumerate(contents):
                for which in ("l2", "l1"):
                    if which == "l1" and pos[1] != 31:
                        continue
                    l1k = content if which == "l1" else (d.bytes(64) if pos[0] or pos[1] == 31 else b"")
                    l2k = content if which == "l2" else gkdi.kdf(h, l1k, gkdi.LABEL, gkdi.ctx(rk.rkid, 361, pos[0], 31), 64)
                    if which == "l2" and pos[1] == 31:
                        # at L2 = 31 the L2 key is a function of the L1 key: only consistent envelopes are legal, so the content goes into the L1 key
                        continue
                    env = G.GroupKeyEnvelope(version=1, flags=2, l0=361, l1=pos[0], l2=pos[1], root_key_identifier=rk.rkid, kdf_algorithm="SP800_108_CTR_HMAC",
                                             kdf_parameters=gkdi.pack_kdf_params(h), secret_algorithm="DH", secret_parameters=rk.params(), private_key_length=512, public_key_length=2048,
                                             domain_name="d", forest_name="f", l1_key=l1k, l2_key=l2k)
                    nonce = d.bytes(32)
                    case = ["seedcontent", h, list(pos), ci, which]
                    try:
                        kek_e, kek_d, kid, consumed = run_case(env, env, nonce)
                    except Exception as e:  # noqa: BLE001
                        acc.violate(f"exc.{type(e).__name__}", case, {"exc": repr(e)})
                        continue
                    judge(acc, case, kek_e, kek_d, kid, consumed, gkdi.kek_nonce(h, l2k, nonce), nonce)
                    n += 1
        acc.ev(n)
        acc.nt_counted(n)
        acc.sample({"mode": "nonce, seed keys with remarkable content", "hash": h})
    elif kind == "dhwidths":
        # ONE process, the same group and the same ephemeral values (hence equal p, g, y) under key lengths 2, 8, 16, 4, 2 in turn: a key
        # blob is its padding too, nothing computed for one width may be served for another
        for kl in (2, 8, 16, 4, 2):
            shard_dh(G, shard[1], seed, acc, kl, SMALL_P, SMALL_G, 16, kl * 8, range(0, 1), range(0, 48), "dhwidths")
        acc.sample({"mode": "DH small group, same public values at key lengths 2, 8, 16, 4, 2 in one process", "hash": shard[1]})
    elif kind == "dhbig":
        d = seams.Drbg(("C03big", seed))
        q = int("8CF83642A709A097B447997640129DA299B1A47D1EB3750BA308B0FE64F5FBD3", 16)
        eph = [1, 2, q - 1, 2**511 + 12345, 2**300 + 7, 255, 2**512 - 1] + [int.from_bytes(d.bytes(64), "big") for _ in range(6)]
        kl_big = shard[2] if len(shard) > 2 else 256
        shard_dh(G, shard[1], seed, acc, kl_big, gkdi.RFC5114_P, gkdi.RFC5114_G, 512, kl_big * 8, range(0, 4 if kl_big == 256 else 2), eph, "dhbig" if kl_big == 256 else f"dhbig{kl_big}")
        acc.sample({"mode": "DH RFC5114", "hash": shard[1], "ephemeral": ["1", "2", "q-1", "2^511+12345", "2^300+7", "255", "2^512-1", "6 x DRBG"]})
    elif kind == "ec":
        _, curve, h, g0, g1, kmax = shard
        shard_ec(G, curve, h, g0, g1, kmax, seed, acc)
    else:
        raise AssertionError(shard)


def replay(case, seed, acc) -> None:
    import dpapi_ng._gkdi as G

    k = case[0]
    acc.ev()
    if k == "xhash":
        shard_xhash(G, case[1], seed, acc)
        for kk in list(acc.violations):
            acc.violations[kk] = [e for e in acc.violations[kk] if e["case"] == case]
            if not acc.violations[kk]:
                del acc.violations[kk]
        acc.violation_count = sum(len(v) for v in acc.violations.values())
        return
    if k == "nonce":
        shard_nonce(G, case[1], seed, acc)
    elif k in ("dhwidths", "seedcontent"):
        run_shard([k, case[1]], "quick", seed, acc)
        for kk in list(acc.violations):
            acc.violations[kk] = [e for e in acc.violations[kk] if e["case"] == case]
            if not acc.violations[kk]:
                del acc.violations[kk]
        acc.violation_count = sum(len(v) for v in acc.violations.values())
    elif k.startswith("dhsmall"):
        shard_dh(G, case[1], seed, acc, case[2], SMALL_P, SMALL_G, 16 if k == "dhsmall" else int(k[8:]), case[2] * 8, [case[3]], [int(case[4])], k)
    elif k.startswith("dhbig"):
        shard_dh(G, case[1], seed, acc, case[2], gkdi.RFC5114_P, gkdi.RFC5114_G, 512, case[2] * 8, [case[3]], [int(case[4])], k)
    elif k == "ec":
        c = ec.CURVES[case[1]]
        kk = int(case[4])
        shard_ec(G, case[1], case[2], case[3], case[3] + 1, kk if kk <= 4096 else 1, seed, acc)


def calibrate() -> None:
    from mc.runner import HarnessError
    from ref import cms

    try:
        cms.calibrate()
        ec.calibrate()
    except AssertionError as e:
        raise HarnessError(f"reference model calibration failed: {e!r}") from e


def finish(tier, seed, merged) -> None:
    from mc.runner import Vacuous

    if not merged.ssum.get("dhsmall_shared_secret_leading_zero") or not merged.ssum.get("dhsmall_public_value_leading_zero"):
        if not merged.ssum.get("entropy_script_not_consumed"):
            raise Vacuous("no leading-zero DH value was exercised")
    if tier == "thorough" and not merged.ssum.get("entropy_script_not_consumed"):
        if not merged.ssum.get("ec_shared_secret_leading_zero") or not merged.sets.get("ec_ephemeral_point_leading_zero"):
            raise Vacuous("no leading-zero EC value was exercised")
