"""C06 — emitted blobs are canonical CMS in Windows' layout; encode/decode are inverse."""
from __future__ import annotations

import itertools
import typing as t
import uuid

from checks import c01
from env import seams
from ref import cms, der, gkdi

ID = "C06"
LEVEL = "exploration"
RULE = (
    "(a) every blob emitted by the real protect API over a reduced C01 product (4 hashes x {nonce, DH, P256, P384} x lengths x SID shapes x sync/async) and (b) generated blob values: key identifier fields "
    "{0,1,2^31,2^32-1} one at a time and all-extreme, key_info length {0,1,32,127,128,255,256,800}, domain/forest {'', 'a', 'dömäin.test', non-BMP, 63-char label}, SID shapes, encrypted-content lengths "
    "chosen by search against the reference encoder so that EVERY enclosing node (ContentInfo, [0], EnvelopedData, EncryptedContentInfo, encryptedContent; and via key_info: SET, [2], KEKIdentifier, keyIdentifier) "
    "has its length on both sides of 127/128, 255/256 (and 65535/65536 for the content side), algorithm parameters present/absent, both layouts. Oracle: (1) independent strict DER parse with nothing (in-envelope) "
    "/ exactly the ciphertext (trailing) left over; (2) tag/OID/version skeleton equals the template extracted from the Windows blobs (emitted blobs); (3) bytes equal the reference CMS encoder for the same field values; "
    "(4) unpack(b).pack(layout) == b; (5) unpack(pack(x)) == x field-wise. The set of (node, length-form class) pairs reached is measured; missing crossings make the run vacuous."
)
ASSUME = ["ref/der.py + ref/cms.py calibrated on the 17 captured blobs (byte-for-byte re-encode)"]
BOUND = {"quick": "one-at-a-time around a base + all boundary crossings", "thorough": "pairs of dimensions"}

NODES_CONTENT = {"ContentInfo": (), "[0]": (1,), "EnvelopedData": (1, 0), "EncryptedContentInfo": (1, 0, 2), "encryptedContent": (1, 0, 2, 2)}
NODES_KID = {"recipientInfos": (1, 0, 1), "kekri": (1, 0, 1, 0), "KEKIdentifier": (1, 0, 1, 0, 1), "keyIdentifier": (1, 0, 1, 0, 1, 0)}
BASE_KID = dict(version=1, flags=2, l0=361, l1=17, l2=13, rkid=uuid.UUID("2e1b932a-4e21-ced3-0b7b-8815aff8335d"), key_info=bytes(range(32)), domain="domain.test", forest="forest.test")
NAMES = ["", "a", "dömäin.test", "\U0001d521.test", "a" * 63 + ".test", "\ufeffbom.test", "\ufffeab", "a\x00b", "cafe\u0301.test", "\ufb01le.\u212bngstrom", "\u1e9b\u0323.x"]  # last three: not in NFC / NFKC (combining marks, compatibility code points) - names are code units, never normalised
U32 = [0, 1, 2**31, 2**32 - 1]
SIDS = ["S-1-5-18", "S-1-5-21-2185496602-3367037166-1388177638-1103", "S-1-0-" + "-".join(["4294967295"] * 15), "S-9-281474976710655-0"]
GCM = cms.gcm_params(bytes(range(12)))


def lenclass(n: int) -> int:
    return 0 if n < 128 else 1 if n < 256 else 2 if n < 65536 else 3


def ref_blob(kid: dict, sid: str, enc_cek: bytes, content: bytes, cparams, kparams, in_env: bool) -> cms.Blob:
    k = gkdi.pack_keyid(gkdi.KeyId(kid["version"], kid["flags"], kid["l0"], kid["l1"], kid["l2"], kid["rkid"], kid["key_info"], kid["domain"], kid["forest"]))
    return cms.Blob(k, sid, enc_cek, content, cparams, in_env, cms.OID_AES256_WRAP, kparams)


def node_len(data: bytes, path) -> int:
    n = der.parse_one(data)
    for i in path:
        n = n.children[i]
    return len(n.content)


def crossing_lengths() -> t.List[t.Tuple[str, int]]:
    """content lengths (resp. key_info lengths) that put each enclosing node's length at boundary-1 and boundary"""
    out: t.List[t.Tuple[str, int]] = []
    for name, path in NODES_CONTENT.items():
        for boundary in (128, 256, 65536):
            lo, hi = 1, 70000
            while lo < hi:  # smallest L with node length >= boundary (monotone)
                mid = (lo + hi) // 2
                if node_len(cms.encode(ref_blob(BASE_KID, SIDS[0], bytes(40), bytes(mid), GCM, None, True)), path) >= boundary:
                    hi = mid
                else:
                    lo = mid + 1
            for L in (lo - 1, lo):
                if L >= 1:
                    out.append(("content", L))
    for name, path in NODES_KID.items():
        for boundary in (128, 256):
            found = None
            for L in range(0, 900):
                if node_len(cms.encode(ref_blob({**BASE_KID, "key_info": bytes(L), "domain": "", "forest": ""}, SIDS[0], bytes(40), bytes(20), GCM, None, True)), path) >= boundary:
                    found = L
                    break
            if found is not None:
                for L in (found - 1, found):
                    if L >= 0:
                        out.append(("key_info", L))
    return sorted(set(out))


def impl_blob(kid: dict, sid: str, enc_cek: bytes, content: bytes, cparams, kparams):
    from dpapi_ng._blob import DPAPINGBlob, KeyIdentifier, SIDDescriptor

    return DPAPINGBlob(
        key_identifier=KeyIdentifier(version=kid["version"], flags=kid["flags"], l0=kid["l0"], l1=kid["l1"], l2=kid["l2"], root_key_identifier=kid["rkid"], key_info=kid["key_info"], domain_name=kid["domain"], forest_name=kid["forest"]),
        protection_descriptor=SIDDescriptor(sid), enc_cek=enc_cek, enc_cek_algorithm=cms.OID_AES256_WRAP, enc_cek_parameters=kparams, enc_content=content, enc_content_algorithm=cms.OID_AES256_GCM, enc_content_parameters=cparams,
    )


def record_classes(acc, data: bytes) -> None:
    root = der.parse_one(data)
    for name, path in {**NODES_CONTENT, **NODES_KID}.items():
        n = root
        try:
            for i in path:
                n = n.children[i]
        except (IndexError, TypeError):
            continue
        acc.set_add("lenclass", (name, lenclass(len(n.content))))


def case_generated(acc, desc, kid, sid, enc_cek, content, cparams, kparams) -> None:
    from dpapi_ng._blob import DPAPINGBlob

    for in_env in (True, False):
        case = ["gen", desc, in_env]
        acc.ev()
        acc.nt(("gen", repr(desc), in_env))
        ref = cms.encode(ref_blob(kid, sid, enc_cek, content, cparams, kparams, in_env))
        try:
            obj = impl_blob(kid, sid, enc_cek, content, cparams, kparams)
            packed = bytes(obj.pack(blob_in_envelope=in_env))
        except Exception as e:  # noqa: BLE001
            acc.violate(f"pack.exc.{type(e).__name__}", case, {"exc": repr(e)})
            continue
        if packed != ref:
            fd = next((i for i, (x, y) in enumerate(zip(packed, ref)) if x != y), min(len(packed), len(ref)))
            acc.violate("pack.bytes", case, {"first_diff": fd, "got": packed[max(0, fd - 8) : fd + 24].hex(), "ref": ref[max(0, fd - 8) : fd + 24].hex(), "lens": [len(packed), len(ref)]})
            continue
        try:
            rb = cms.decode(packed, template=False)
            if (rb.in_envelope or not content) is False and in_env:
                acc.violate("strict-der.layout", case, {})
        except cms.CmsError as e:
            acc.violate("strict-der", case, {"err": str(e)})
            continue
        record_classes(acc, packed)
        try:
            back = DPAPINGBlob.unpack(packed)
        except Exception as e:  # noqa: BLE001
            acc.violate(f"unpack.exc.{type(e).__name__}", case, {"exc": repr(e)})
            continue
        if back != obj:
            acc.violate("unpack.value", case, {"decoded": repr(back)[:400], "original": repr(obj)[:400]})
            continue
        if bytes(back.pack(blob_in_envelope=in_env)) != packed:
            acc.violate("repack.bytes", case, {})
            continue
        if len(packed) <= 70000:
            # decoded from a buffer the caller goes on using: the decoded blob neither changes with the buffer nor pins it
            bad = None
            for form in ("bytearray", "memoryview"):
                buf = bytearray(packed)
                try:
                    b2 = DPAPINGBlob.unpack(buf if form == "bytearray" else memoryview(buf))
                    for i_ in range(0, len(buf), max(1, len(buf) // 997)):
                        buf[i_] ^= 0xFF
                    buf[-1:] = b"\x00"
                    del buf[:]
                    again = bytes(b2.pack(blob_in_envelope=in_env))
                except Exception as e:  # noqa: BLE001
                    bad = (f"buffer-reuse.exc.{type(e).__name__}", {"exc": repr(e), "form": form})
                    break
                if again != packed or b2 != obj:
                    bad = ("buffer-reuse.aliased", {"form": form})
                    break
            if bad:
                acc.violate(bad[0], case, bad[1])
                continue
        acc.outcome("generated-ok")


def case_emitted(acc, seed: int, h: str, m: str, ln: int, sid: str, api: str) -> None:
    from dpapi_ng._blob import DPAPINGBlob

    rk = c01.mk_root(seed, h, m)
    v, blob = c01.roundtrip(rk, m, sid, c01.plaintext(seed, ln), c01.CLOCKS_Q[0], api)
    case = ["emit", h, m, ln, sid, api]
    acc.ev()
    acc.nt(("emit", h, m, ln, sid, api))
    if blob is None:
        acc.violate("emit.protect-failed", case, {"detail": repr(v)})
        return
    try:
        trail = bytes(DPAPINGBlob.unpack(blob).pack(blob_in_envelope=False))
    except Exception as e:  # noqa: BLE001
        acc.violate(f"emit.unpack-own-output.exc.{type(e).__name__}", case, {"exc": repr(e), "blob": blob[:160].hex()})
        return
    for layout, data in (("env", blob), ("trail", trail)):
        try:
            b = cms.decode(data, template=True)
        except cms.CmsError as e:
            acc.violate("emit.not-windows-layout", case + [layout], {"err": str(e), "blob": data[:160].hex()})
            return
        if b.in_envelope != (layout == "env") and ln + 16 > 0:
            acc.violate("emit.layout", case + [layout], {})
        if cms.encode(b) != data:
            acc.violate("emit.reference-encoder-differs", case + [layout], {})
        try:
            same = bytes(DPAPINGBlob.unpack(data).pack(blob_in_envelope=(layout == "env"))) == data
        except Exception as e:  # noqa: BLE001
            acc.violate(f"emit.reencode.exc.{type(e).__name__}", case + [layout], {"exc": repr(e)})
            return
        if not same:
            acc.violate("emit.reencode-differs", case + [layout], {})
        kid = gkdi.unpack_keyid(b.keyid)
        if gkdi.pack_keyid(kid) != b.keyid or kid.version != 1:
            acc.violate("emit.keyid", case + [layout], {})
        record_classes(acc, data)
    acc.outcome("emitted-ok")


def shards(tier: str, seed: int):
    out = [["emit", h, m] for h in c01.HASHES for m in c01.MODES]
    out += [["gen", k] for k in ("cross", "kid", "names", "sid", "params", "pairs", "huge", "repack")]
    return out


def run_shard(shard, tier, seed, acc) -> None:
    seams.block_network()
    if shard[0] == "emit":
        _, h, m = shard
        lens = [0, 1, 16, 111, 112, 127, 128, 255, 256, 65535, 65536, 70000] if m == "nonce" else [0, 1, 16, 127, 128, 256, 65536]
        sids = c01.sid_shapes("quick")
        for i, ln in enumerate(lens):
            for api in ("sync", "async"):
                case_emitted(acc, seed, h, m, ln, sids[i % len(sids)], api)
        acc.sample({"emitted": [h, m], "plaintext_lengths": lens})
        return
    fam = shard[1]
    cek = bytes(range(40))
    content = bytes(range(100, 148))
    if fam == "cross":
        for kind, L in crossing_lengths():
            if kind == "content":
                case_generated(acc, ["content_len", L], BASE_KID, SIDS[0], cek, bytes(L), GCM, None)
            else:
                case_generated(acc, ["key_info_len", L], {**BASE_KID, "key_info": bytes(L), "domain": "", "forest": ""}, SIDS[0], cek, bytes(20), GCM, None)
        for L in (0, 1, 16, 17, 111, 112, 127, 128, 255, 256, 65535, 65536, 70000):
            case_generated(acc, ["content_len", L], BASE_KID, SIDS[1], cek, bytes(L), GCM, None)
        acc.sample({"boundary_crossing_lengths": [list(x) for x in crossing_lengths()][:12]})
    elif fam == "kid":
        for f in ("version", "flags", "l0", "l1", "l2"):
            for v in U32:
                case_generated(acc, ["kid", f, v], {**BASE_KID, f: v}, SIDS[1], cek, content, GCM, None)
        case_generated(acc, ["kid", "all-extreme"], {**BASE_KID, **{f: 2**32 - 1 for f in ("version", "flags", "l0", "l1", "l2")}, "rkid": uuid.UUID(int=2**128 - 1)}, SIDS[2], cek, content, GCM, None)
        for L in (0, 1, 32, 127, 128, 255, 256, 800):
            case_generated(acc, ["kid", "key_info", L], {**BASE_KID, "key_info": bytes((i * 7) & 0xFF for i in range(L))}, SIDS[1], cek, content, GCM, None)
    elif fam == "names":
        for d, f in itertools.product(NAMES, NAMES):
            case_generated(acc, ["names", d, f], {**BASE_KID, "domain": d, "forest": f}, SIDS[1], cek, content, GCM, None)
    elif fam == "sid":
        for sid in SIDS + c01.sid_shapes("thorough" if tier == "thorough" else "quick"):
            case_generated(acc, ["sid", sid], BASE_KID, sid, cek, content, GCM, None)
    elif fam == "params":
        for cp in (GCM, None, cms.gcm_params(b"", 0), der.enc_seq(), b"\x05\x00"):
            for kp in (None, b"\x05\x00", der.enc_seq(der.enc_int(5))):
                for ek in (b"", bytes(8), cek, bytes(200)):
                    case_generated(acc, ["params", None if cp is None else cp.hex(), None if kp is None else kp.hex(), len(ek)], BASE_KID, SIDS[1], ek, content, cp, kp)
    elif fam == "huge":
        for L in (2**24 - 1 - 400, 2**24 - 200, 2**24, 2**24 + 17):
            case_generated(acc, ["content_len", L], BASE_KID, SIDS[0], cek, bytes(L), GCM, None)
    elif fam == "repack":
        # DPAPINGBlob is a mutable dataclass: pack, change a field, pack again
        from dpapi_ng._blob import SIDDescriptor

        obj = impl_blob(BASE_KID, SIDS[0], cek, content, GCM, None)
        state = dict(kid=dict(BASE_KID), sid=SIDS[0], cek=cek, content=content, cp=GCM, kp=None)
        steps = [("enc_content", bytes(200)), ("enc_content", bytes(65536)), ("enc_cek", bytes(8)), ("enc_content_parameters", None), ("protection_descriptor", SIDS[1]), ("enc_content", b"\x01"), ("enc_cek_parameters", b"\x05\x00"), ("enc_content_parameters", GCM)]
        for i_, (fld, val) in enumerate(steps):
            if fld == "protection_descriptor":
                obj.protection_descriptor = SIDDescriptor(val)
                state["sid"] = val
            else:
                setattr(obj, fld, val)
                state[{"enc_content": "content", "enc_cek": "cek", "enc_content_parameters": "cp", "enc_cek_parameters": "kp"}[fld]] = val
            # the same object packed several times in a row in alternating layouts (every transition T->F, F->T, T->T, F->F occurs)
            for j_, in_env in enumerate((True, False, True, True, False, False, True)):
                acc.ev()
                acc.nt(("repack", i_, j_, in_env))
                ref = cms.encode(ref_blob(state["kid"], state["sid"], state["cek"], state["content"], state["cp"], state["kp"], in_env))
                try:
                    got = bytes(obj.pack(blob_in_envelope=in_env))
                except Exception as e:  # noqa: BLE001
                    acc.violate(f"repack.exc.{type(e).__name__}", ["repack", i_, fld, in_env], {"exc": repr(e)})
                    continue
                if got != ref:
                    acc.violate("repack-after-mutation.bytes", ["repack", i_, fld, in_env], {"lens": [len(got), len(ref)], "pack_call_in_this_step": j_})
                else:
                    acc.outcome("repack-ok")
            # ... and an object that came out of unpack(), packed in the trailing layout first
            from dpapi_ng._blob import DPAPINGBlob

            for first_env in (True, False):
                src = cms.encode(ref_blob(state["kid"], state["sid"], state["cek"], state["content"], state["cp"], state["kp"], first_env))
                try:
                    o2 = DPAPINGBlob.unpack(src)
                    outs = [bytes(o2.pack(blob_in_envelope=e_)) for e_ in (False, True, False, True)]
                except Exception as e:  # noqa: BLE001
                    acc.violate(f"repack.unpacked.exc.{type(e).__name__}", ["repack", i_, fld, first_env, "unpacked"], {"exc": repr(e)})
                    continue
                acc.ev()
                want = [cms.encode(ref_blob(state["kid"], state["sid"], state["cek"], state["content"], state["cp"], state["kp"], e_)) for e_ in (False, True, False, True)]
                if outs != want:
                    acc.violate("repack-unpacked.bytes", ["repack", i_, fld, first_env, "unpacked"], {"equal": [a_ == b_ for a_, b_ in zip(outs, want)]})
    elif fam == "pairs":
        lens = [0, 1, 127, 128, 256, 65536] if tier == "quick" else [0, 1, 16, 111, 112, 127, 128, 255, 256, 65535, 65536]
        for L, ki, nm, sid in itertools.product(lens, (0, 32, 128, 800), NAMES[::2], SIDS[:3]):
            case_generated(acc, ["pair", L, ki, nm, sid], {**BASE_KID, "key_info": bytes(ki), "domain": nm, "forest": nm}, sid, cek, bytes(L), GCM, None)
    acc.sample({"generated_family": fam})


def replay(case, seed, acc) -> None:
    seams.block_network()
    if case[0] == "emit":
        case_emitted(acc, seed, *case[1:6])
        return
    # generated cases are cheap: re-run the families and keep the matching case
    for fam in ("cross", "kid", "names", "sid", "params", "pairs", "huge", "repack"):
        run_shard(["gen", fam], "quick", seed, acc)
    for k in list(acc.violations):
        acc.violations[k] = [e for e in acc.violations[k] if e["case"] == case]
        if not acc.violations[k]:
            del acc.violations[k]
    acc.violation_count = sum(len(v) for v in acc.violations.values())


def calibrate() -> None:
    from mc.runner import HarnessError

    try:
        cms.calibrate()
    except AssertionError as e:
        raise HarnessError(f"calibration failed: {e!r}") from e


def finish(tier, seed, merged) -> None:
    from mc.runner import Vacuous, digest

    if merged.violation_count:
        return
    have = merged.sets.get("lenclass", set())
    missing = []
    for name in NODES_CONTENT:
        for c in range(4):
            if digest((name, c)) not in have and not (name in ("ContentInfo", "[0]", "EnvelopedData") and c == 0):
                missing.append((name, c))
    for name in NODES_KID:
        for c in range(3):
            if digest((name, c)) not in have and not (name in ("recipientInfos", "kekri") and c == 0):
                missing.append((name, c))
    if missing:
        raise Vacuous(f"DER length-form classes never reached: {missing}")
