"""C01 — protect o unprotect = id for every input, configuration and time (sync, async, both layouts)."""
from __future__ import annotations

import itertools
import typing as t

from env import refdc, secctx, seams, transport
from mc import vloop
from ref import cms, gkdi

ID = "C01"
LEVEL = "exploration"
B = gkdi.B
RULE = (
    "complete product of: plaintext length {0,1,15,16,17,31,32,33,111,112,127,128,239,240,255,256,65519,65520,65535,65536,65537} (quick: 8 of them) x SID shape (n sub-authorities 1..15 x value pattern {all 0, all 2^32-1, mixed}; quick: 4 shapes) "
    "x key configuration (4 KDF hashes x {nonce, DH RFC5114, ECDH_P256, ECDH_P384}) x clock {mid-interval, first/last tick of an L2, L1, L0 interval} (quick: 4) x layout {in-envelope, trailing} x API {sync, async}. "
    "nonce mode: offline KeyCache with the root key, or seed keys fetched from the reference DC (whose envelope at L2'=31 carries / omits the L2 key); public-key mode: protect through the reference DC answering 'not authorised' (group public key only), unprotect with the offline cache. trailing layout: "
    "DPAPINGBlob.unpack(blob).pack(blob_in_envelope=False) fed back to unprotect. Oracle: unprotect(protect(x)) == x and the independent reference decryptor opens the same blob from the root key alone and the blob names the interval of the virtual clock. "
    "Nonce-mode cells are additionally run twice in a row on one KeyCache shared along the whole shard (cache history x clock x SID). DC-seeded modes additionally run every ordered pair of 12 clock positions on a fresh cache that only holds what the DC returned. Every cell is distinct by construction; non-trivial = all (each runs protect, two unprotects and the reference decryptor)."
    ' Also two async UNPROTECTS of blobs at 7 position pairs in flight at once on one empty shared cache (both need the DC), every interleaving of the two conversations within the deviation bound.'
    " For the non-SHA512 nonce configurations every other cell uses a cache into which the root key id was loaded twice before use (load_key's defaults, then the real attributes). Nonce shards end with one cache holding three root keys (two of one hash, one of another): the same SID and clock protected under each alternately, 6 clocks x 3 SIDs x sync/async x 5 calls."
)
ASSUME = ["ref/cms.py + ref/gkdi.py calibrated on the 16 Windows vectors", "clock seam time.time_ns; DC with scripted security context for the public-key configurations"]
BOUND = {"quick": "8 lengths x 4 SID shapes x 24 configs x 4 clocks x 2 layouts x 2 APIs", "thorough": "21 lengths x 45 SID shapes x 24 configs x 7 clocks x 2 x 2 (SID shapes cycled over the other dimensions for DH)"}

LENS_T = [0, 1, 15, 16, 17, 31, 32, 33, 111, 112, 127, 128, 239, 240, 255, 256, 65519, 65520, 65535, 65536, 65537]  # incl. lengths whose ciphertext+tag (len+16) sits on a DER length-form boundary
LENS_Q = [0, 1, 16, 33, 112, 240, 256, 65521, 65535, 65537]
HASHES = ["SHA1", "SHA256", "SHA384", "SHA512"]
MODES = ["nonce", "DH", "ECDH_P256", "ECDH_P384", "nonce-dc", "nonce-dc-noL2"]  # nonce-dc*: seed keys fetched from the reference DC (noL2: it omits the L2 key at L2'=31)
L0 = 364
CLOCKS_T = [L0 * 1024 * B + 5 * 32 * B + 7 * B + 123456, (L0 * 1024 + 5 * 32 + 8) * B, (L0 * 1024 + 5 * 32 + 8) * B - 1, (L0 * 1024 + 6 * 32) * B, (L0 * 1024 + 6 * 32) * B - 1, (L0 + 1) * 1024 * B, (L0 + 1) * 1024 * B - 1]
CLOCKS_T.append(CLOCKS_T[0] + 1024 * B)  # same (L1, L2) in the next L0
CLOCKS_Q = [CLOCKS_T[0], CLOCKS_T[2], CLOCKS_T[3], CLOCKS_T[6], CLOCKS_T[7]]


def sid_shapes(tier: str) -> t.List[str]:
    out = []
    for n in range(1, 16):
        for pat in ("zero", "max", "mixed"):
            if pat == "zero":
                subs = [0] * n
            elif pat == "max":
                subs = [2**32 - 1] * n
            else:
                subs = [(21 if i == 0 else (i * 2654435761) % 2**32) for i in range(n)]
            out.append("S-1-5-" + "-".join(map(str, subs)))
    big = ["S-1-4294967296-7", "S-1-281474976710655-1-4294967295", "S-9-0-0"]  # identifier authority >= 2^32 / maximal, another revision
    if tier == "quick":
        return [out[0], out[3 * 4 + 2], out[3 * 13 + 1], out[3 * 14 + 2]] + big[:2]
    return out + big


def _ctx(u, p, **kw):
    return secctx.ScriptedContext([b"C1"], 16)


WALK = [(6, 0), (5, 31), (5, 7), (4, 31), (4, 3), (6, 5), (3, 0), (31, 31), (0, 0), (30, 31), (0, 7), (0, 5)]  # (0, x): first L1 interval - the DC's envelope has no L1 key there


def roundtrip(rk: gkdi.RootKey, mode: str, sid: str, pt: bytes, ft: int, api: str, cache=None, seed_cache=None):
    """-> (violation or None, blob)"""
    import dpapi_ng
    from dpapi_ng._blob import DPAPINGBlob

    cache = cache if cache is not None else seams.make_cache(rk)
    run = (lambda c: c) if api == "sync" else vloop.run
    prot = dpapi_ng.ncrypt_protect_secret if api == "sync" else dpapi_ng.async_ncrypt_protect_secret
    unprot = dpapi_ng.ncrypt_unprotect_secret if api == "sync" else dpapi_ng.async_ncrypt_unprotect_secret
    with seams.clock(ft):
        try:
            if mode == "nonce":
                blob = bytes(run(prot(pt, sid, root_key_identifier=rk.rkid, cache=cache)))
            elif mode.startswith("nonce-dc"):
                dc = refdc.DC([rk], now=gkdi.interval(ft))
                dc.l2_at_31 = mode == "nonce-dc"
                with transport.network(dc), secctx.scripted_client(_ctx):
                    if seed_cache is not None:  # a cache that only ever holds what the DC returned, kept between calls
                        blob = bytes(run(prot(pt, sid, root_key_identifier=rk.rkid, cache=seed_cache, server="dc", username="u", password="p", auth_protocol="ntlm")))
                        via = bytes(run(unprot(blob, cache=seed_cache, server="dc", username="u", password="p", auth_protocol="ntlm")))
                        if via != pt:
                            return ("seed-cache.roundtrip.differs", {"len": len(pt), "got_len": len(via)}), blob
                    else:
                        blob = bytes(run(prot(pt, sid, server="dc", username="u", password="p", auth_protocol="ntlm", cache=cache)))
            else:
                # the caller's cache (root key loaded) is handed to protect as well: no root key is named, so protect must ask the DC,
                # and whatever it leaves in the cache must not disturb the unprotect that follows on the same cache object
                dc = refdc.DC([rk], now=gkdi.interval(ft), authorised=False)
                with transport.network(dc), secctx.scripted_client(_ctx):
                    blob = bytes(run(prot(pt, sid, server="dc", username="u", password="p", auth_protocol="ntlm", cache=cache)))
        except Exception as e:  # noqa: BLE001
            return (f"protect.exc.{type(e).__name__}", {"exc": repr(e)}), None
        try:
            back = bytes(run(unprot(blob, cache=cache)))
        except Exception as e:  # noqa: BLE001
            return (f"unprotect.exc.{type(e).__name__}", {"exc": repr(e), "blob": blob.hex()[:200]}), blob
        if back != pt:
            return ("roundtrip.differs", {"len": len(pt), "got_len": len(back)}), blob
        try:
            trailing = bytes(DPAPINGBlob.unpack(blob).pack(blob_in_envelope=False))
            back2 = bytes(run(unprot(trailing, cache=seams.make_cache(rk))))
        except Exception as e:  # noqa: BLE001
            return (f"trailing.exc.{type(e).__name__}", {"exc": repr(e)}), blob
        if back2 != pt:
            return ("trailing.differs", {"len": len(pt), "got_len": len(back2)}), blob
    try:
        rpt, cek, b, kid = cms.ref_decrypt(rk, blob, want_cek=True)
        rpt2 = cms.ref_decrypt(rk, trailing)
    except Exception as e:  # noqa: BLE001
        return (f"reference-decryptor.exc.{type(e).__name__}", {"exc": repr(e), "blob": blob.hex()[:200]}), blob
    if rpt != pt or rpt2 != pt:
        return ("reference-decryptor.differs", {}), blob
    if (kid.l0, kid.l1, kid.l2) != gkdi.interval(ft):
        return ("key-position", {"named": [kid.l0, kid.l1, kid.l2], "expected": gkdi.interval(ft)}), blob
    if bool(kid.flags & 1) != (not mode.startswith("nonce")):
        return ("key-mode", {"flags": kid.flags, "mode": mode}), blob
    return None, blob


def shards(tier: str, seed: int):
    out = []
    for h in HASHES:
        for m in MODES:
            parts = {"nonce": 1, "DH": 6, "ECDH_P256": 2, "ECDH_P384": 3, "nonce-dc": 1, "nonce-dc-noL2": 1}[m] * (1 if tier == "quick" else 4)
            for p in range(parts):
                out.append(["cfg", h, m, p, parts])
    return out


def mk_root(seed: int, h: str, m: str) -> gkdi.RootKey:
    return seams.make_root(seams.Drbg(("C01", seed, h, m)), h, "DH" if m.startswith("nonce") else m)


def plaintext(seed: int, n: int) -> bytes:
    return seams.Drbg(("C01pt", seed, n)).bytes(n)


def cells(tier: str, mode: str):
    lens = LENS_Q if tier == "quick" else LENS_T
    clocks = CLOCKS_Q if tier == "quick" else CLOCKS_T
    sids = sid_shapes(tier)
    if tier == "quick" or mode.startswith("nonce"):
        yield from itertools.product(lens, sids, clocks, ("sync", "async"))
    else:
        # public-key configurations cost 5-15 ms per call: every (length x clock x api), SID shapes cycled so that each shape occurs with each length
        i = 0
        for ln, ft, api in itertools.product(lens, clocks, ("sync", "async")):
            for k in range(3):
                yield ln, sids[(i * 3 + k) % len(sids)], ft, api
            i += 1


def run_shard(shard, tier, seed, acc) -> None:
    seams.block_network()
    _, h, m, part, parts = shard
    rk = mk_root(seed, h, m)
    n = 0
    shared = seams.make_cache(rk)  # one cache kept along the whole shard (many SIDs, clock values, both APIs) next to a fresh one per cell
    hist: t.List[t.Any] = []
    for idx, (ln, sid, ft, api) in enumerate(cells(tier, m)):
        if idx % parts != part or acc.too_many():
            continue
        # every other cell of the SHA512 nonce configuration loads the root key with nothing but key and id (load_key's defaults)
        minimal = m == "nonce" and h == "SHA512" and idx % 2 == 1
        cell_cache = seams.make_cache(rk, minimal=True) if minimal else None
        if m == "nonce" and h != "SHA512" and idx % 2 == 1:
            # the application first loaded this root key id with load_key's defaults (wrong for this key: SHA512) and then, before any use,
            # again with the attributes the directory really holds: the cache answers for what was loaded LAST
            import dpapi_ng

            cell_cache = dpapi_ng.KeyCache()
            cell_cache.load_key(rk.key, rk.rkid)
            seams.load_root(cell_cache, rk)
        v, blob = roundtrip(rk, m, sid, plaintext(seed, ln), ft, api, cache=cell_cache)
        n += 1
        if v:
            acc.violate(v[0], ["cell", h, m, ln, sid, ft, api], v[1], size=ln + len(sid))
            acc.outcome("violation")
        else:
            acc.outcome("roundtrip-ok")
        if m == "nonce" and ln <= 256:
            # the same cell twice in a row on the shared cache (a second protect in the same interval with the same SID)
            for rep in (0, 1):
                v2, _ = roundtrip(rk, m, sid, plaintext(seed, ln), ft, api, cache=shared)
                n += 1
                if v2:
                    acc.violate("shared-cache." + v2[0], ["shard", shard, tier], {**v2[1], "cell": [h, m, ln, sid, ft, api], "repeat": rep, "cells_before": len(hist)}, size=10**5)
                    acc.outcome("violation")
                else:
                    acc.outcome("roundtrip-ok-shared-cache")
            hist.append([ln, sid, ft, api])
    if m == "nonce" and part == 0:
        # ONE cache that holds TWO root keys (key roll-over: the old and the new root key of the same group), the same SID and clock protected
        # under each of them alternately: what the cache learnt for one root key must not serve the other (the reference decryptor judges)
        rk_b = seams.make_root(seams.Drbg(("C01-second-root", seed, h)), h, "DH")
        rk_c = seams.make_root(seams.Drbg(("C01-third-root", seed, h)), HASHES[(HASHES.index(h) + 1) % len(HASHES)], "DH")
        two = seams.make_cache(rk)
        seams.load_root(two, rk_b)
        seams.load_root(two, rk_c)
        sids2 = sid_shapes("quick")[:3]
        for ft2 in (CLOCKS_Q if tier == "quick" else CLOCKS_T)[:6]:
            for sid2 in sids2:
                for api2 in ("sync", "async"):
                    for which, rkx in (("first", rk), ("second", rk_b), ("third", rk_c), ("first", rk), ("second", rk_b)):
                        v3, _ = roundtrip(rkx, m, sid2, plaintext(seed, 23), ft2, api2, cache=two)
                        n += 1
                        if v3:
                            acc.violate("two-roots." + v3[0], ["shard", shard, tier], {**v3[1], "root": which, "cell": [sid2, ft2, api2]}, size=10**5)
                            acc.outcome("violation")
                        else:
                            acc.outcome("roundtrip-ok-two-roots")
    if m in ("ECDH_P256", "nonce-dc") and part == 0:
        # two async round trips in flight at once (their DC conversations interleaved by the explorer), and the whole thing again on a
        # NEW event loop of the same process: every call returns its own plaintext
        import dpapi_ng

        from mc import explorer, overlap

        sid_o = sid_shapes("quick")[1]
        ft_o = CLOCKS_T[0]
        for round_ in (0, 1):

            def body(ch):
                dc = refdc.DC([rk], now=gkdi.interval(ft_o), authorised=m != "ECDH_P256")
                cache_o = seams.make_cache(rk)

                async def rt(i):
                    pt = plaintext(seed, 17 + i)
                    blob = await dpapi_ng.async_ncrypt_protect_secret(pt, sid_o, server="dc", username="u", password="p", auth_protocol="ntlm")
                    back = await dpapi_ng.async_ncrypt_unprotect_secret(bytes(blob), cache=cache_o)
                    return bytes(back) == pt

                with seams.clock(ft_o):
                    return overlap.run(ch, dc, [lambda: rt(0), lambda: rt(1)], [secctx.scripted_client(_ctx)])

            def on_exec(ch, r):
                nonlocal n
                status, res, order = r
                n += 1
                if status != "ok" or any(st != "ok" or v is not True for st, v in res):
                    acc.violate("overlap.roundtrip", ["shard", shard, tier], {"loop_round": round_, "status": status, "results": repr(res)[:300], "schedule": ch.choices}, size=10**5)
                else:
                    acc.outcome("roundtrip-ok-overlap")

            explorer.explore(body, 1, on_exec)
    if m == "nonce-dc" and part == 0:
        # two async UNPROTECTS in flight at once on one shared cache that holds nothing yet (both need the DC), blobs of two positions of
        # one L0 in both orders: each call returns its own plaintext however the two DC conversations interleave
        import dpapi_ng

        from mc import explorer, overlap
        from ref import cms as _cms

        sid_u = sid_shapes("quick")[1]
        d_u = seams.Drbg(("C01ovl-unprot", seed))
        pts_u = [plaintext(seed, 17), plaintext(seed, 18)]
        for pa, pb in (((3, 5), (3, 9)), ((3, 9), (3, 5)), ((2, 31), (3, 0)), ((3, 0), (2, 31)), ((3, 9), (3, 9)), ((0, 3), (5, 0)), ((4, 31), (4, 30))):
            blobs_u = [_cms.ref_encrypt(rk, sid_u, pts_u[i], (L0,) + pos, cek=d_u.bytes(32), gcm_nonce_=d_u.bytes(12), key_nonce=d_u.bytes(32)) for i, pos in enumerate((pa, pb))]
            now_u = (L0, 6, 1)

            def body_u(ch, blobs_u=blobs_u):
                dc = refdc.DC([rk], now=now_u)
                cache_u = dpapi_ng.KeyCache()

                async def un(i):
                    back = await dpapi_ng.async_ncrypt_unprotect_secret(blobs_u[i], cache=cache_u, server="dc", username="u", password="p", auth_protocol="ntlm")
                    return bytes(back) == pts_u[i]

                with seams.clock((now_u[0] * 1024 + now_u[1] * 32 + now_u[2]) * B + 99):
                    return overlap.run(ch, dc, [lambda: un(0), lambda: un(1)], [secctx.scripted_client(_ctx)])

            def on_exec_u(ch, r, pa=pa, pb=pb):
                nonlocal n
                status, res, order = r
                n += 1
                if status != "ok" or any(st != "ok" or v is not True for st, v in res):
                    acc.violate("overlap.unprotect", ["shard", shard, tier], {"positions": [list(pa), list(pb)], "status": status, "results": repr(res)[:300], "schedule": ch.choices}, size=10**5)
                else:
                    acc.outcome("roundtrip-ok-overlap")

            explorer.explore(body_u, 1 if tier == "quick" else 2, on_exec_u)
    if m.startswith("nonce-dc") and part == 0:
        # every ordered pair of 12 clock positions (adjacent L1 intervals, L2 = 31, interval ends) on a fresh seed-only cache: the second
        # call is served from what the first one fetched whenever that covers it (a client clock behind the DC's, or moving backwards)
        import dpapi_ng

        sid = sid_shapes("quick")[1]
        for a, b2 in itertools.permutations(WALK, 2):
            sc = dpapi_ng.KeyCache()
            for pos in (a, b2):
                ft = (L0 * 1024 + pos[0] * 32 + pos[1]) * B + 4242
                api = "sync" if (a[0] + b2[1]) % 2 == 0 else "async"
                v, _ = roundtrip(rk, m, sid, plaintext(seed, 33), ft, api, seed_cache=sc)
                n += 1
                if v:
                    acc.violate("seed-cache." + v[0], ["walk", h, m, list(a), list(b2), api], {**v[1], "failed_at": list(pos)}, size=sum(a) + sum(b2))
                    acc.outcome("violation")
                else:
                    acc.outcome("roundtrip-ok-seed-cache")
    acc.ev(n)
    acc.nt_counted(n)
    acc.sample({"hash": h, "mode": m, "plaintext_len": ln, "sid": sid, "filetime": ft, "api": api})


def replay(case, seed, acc) -> None:
    seams.block_network()
    if case[0] == "walk":
        import dpapi_ng

        _, h, m, a, b2, api = case
        rk = mk_root(seed, h, m)
        sc = dpapi_ng.KeyCache()
        acc.ev()
        for pos in (a, b2):
            v, _ = roundtrip(rk, m, sid_shapes("quick")[1], plaintext(seed, 33), (L0 * 1024 + pos[0] * 32 + pos[1]) * B + 4242, api, seed_cache=sc)
            if v:
                acc.violate("seed-cache." + v[0], case, {**v[1], "failed_at": list(pos)})
        return
    _, h, m, ln, sid, ft, api = case
    acc.ev()
    v, _ = roundtrip(mk_root(seed, h, m), m, sid, plaintext(seed, ln), ft, api)
    if v:
        acc.violate(v[0], case, v[1])


def calibrate() -> None:
    from mc.runner import HarnessError

    try:
        cms.calibrate()
    except AssertionError as e:
        raise HarnessError(f"calibration failed: {e!r}") from e
