"""C18 — endpoint-mapper replies: right port if well-formed, bounded work for any reply."""
from __future__ import annotations

import itertools
import struct
import tracemalloc
import typing as t

from env import refdc, secctx, seams, transport
from mc import budget, vloop
from ref import cms, dcerpc as rpc, epm, gkdi

ID = "C18"
LEVEL = "model_checking"
RULE = (
    "well-formed part: ept_map replies encoded by the independent NDR64 encoder for tower lists of 0..6 towers whose lengths cover every residue mod 8 in every list position "
    "(lists <=2 (quick) / <=3 (thorough) towers: full product over 8 residues; longer lists: residues cycled), floors from {UUID, RPC-CO, TCP(distinct port per tower), UDP, IP, named pipe, "
    "unknown 0x55}, TCP floor in tower {none,0,1,last} at floor position {3,0,last}, status in {0,0x16C9A0D6,1,2^32-1}, handle {null,set}, response alloc_hint {exact, 0, larger}; each delivered through the whole client stack "
    "(sync, and async on the virtual loop) by the reference DC; 19 spellings of the server argument (DNS names, trailing dot, IPv4 / IPv6 literals, digits-only labels) x 6 announced ports x 2 TCP floor positions: connections go to exactly (server,135) then (server, announced port): the second connection must go to the port of the first tower that has a TCP floor; status!=0 or no TCP floor => error and "
    "no second connection; EptMapResult.unpack must return all towers (unknown floors preserved). adversarial part: every prefix of 20 replies, the count fields (num_towers, max, actual, "
    "per-tower max/length/floor count) substituted by {0,1,2,actual+-1,2^16,2^32,2^40,2^63,2^64-1} singly and in pairs, all-zero replies of length 0..64: return or raise within "
    "50000+100*len line events and 1MiB+64*len allocation (direct) and through the stack (single substitutions). state = one delivered reply (environment answer); transition = one client run."
    " For half of the cases the endpoint mapper closes its end right after the ept_map reply (the client's shutdown() meets ENOTCONN)."
    ' Also replies of 3 000..5 840 octets in one fragment (the max_recv_frag the client itself advertises).'
)
ASSUME = ["ref/epm.py NDR64 layout calibrated on the captured ept_map reply", "scripted security context on the ISD_KEY connection (authentication is not what is explored here)"]
BOUND = {"quick": "full residue product for <=2 towers", "thorough": "full residue product for <=3 towers, all TCP placements x statuses x handles"}

SID = "S-1-5-21-1-2-3-1104"
STATUSES = [0, 0x16C9A0D6, 1, 2**32 - 1]
HANDLE = struct.pack("<I", 7) + bytes(range(16))


def tower(i: int, residue: int, tcp_at: t.Optional[str]) -> t.List[epm.Floor]:
    """tower #i with total octet length == residue (mod 8); tcp_at in None|'3'|'0'|'last'"""
    # distinct ports in an order that is neither ascending nor descending, numerically or modulo any small power of two
    port = [49670, 49672, 49667, 49675, 50001, 49152, 135, 49664][i % 8] + 8 * (i // 8)
    base: t.List[epm.Floor] = [epm.uuid_floor(rpc.ISD_KEY), epm.uuid_floor(rpc.NDR), epm.rpc_co_floor(0)]
    others: t.List[epm.Floor] = [(epm.P_UDP, b"", struct.pack(">H", 500 + i)), epm.ip_floor(0x0A000001 + i), (epm.P_PIPE, b"", b"\\pipe\\x\x00")][: 1 + i % 3]
    if i % 2:
        # a floor of a protocol the client has no name for (ncacn_http 0x1F, an arbitrary id): kept as opaque data, never an obstacle
        others = others[:-1] + [((0x1F, 0x55, 0x11)[i % 3], b"", struct.pack(">H", 593 + i))]
    tcp = epm.tcp_floor(port)
    if tcp_at == "3":
        floors = base + [tcp] + others
    elif tcp_at == "0":
        floors = [tcp] + base + others
    elif tcp_at == "last":
        floors = base + others + [tcp]
    else:
        floors = base + others
    ln = len(epm.tower_octets(floors)) + 5
    filler: epm.Floor = (0x55, b"", bytes((residue - ln) % 8))
    if tcp_at == "last":
        floors = floors[:-1] + [filler, floors[-1]]
    else:
        floors = floors + [filler]
    assert len(epm.tower_octets(floors)) % 8 == residue
    return floors


def expected_port(towers: t.Sequence[t.Sequence[epm.Floor]]) -> t.Optional[int]:
    for tw in towers:
        for f in tw:
            if f[0] == epm.P_TCP:
                return struct.unpack(">H", f[2])[0]
    return None


def gen_lists(tier: str) -> t.Iterator[t.Tuple[t.List[int], t.Tuple[int, ...], str]]:
    """(residues per tower, indexes of towers with a TCP floor, tcp position)"""
    full = 2 if tier == "quick" else 3
    for n in range(0, 7):
        if n <= full:
            res_iter: t.Iterable[t.Tuple[int, ...]] = itertools.product(range(8), repeat=n)
        else:
            res_iter = [tuple((s + 3 * j) % 8 for j in range(n)) for s in range(8)]
        for residues in res_iter:
            seen_pl: t.Set[t.Tuple[int, ...]] = set()
            placements = [(), (0,), (1,), (n - 1,), (1, n - 1), (0, 1), (0, n - 1), tuple(range(n))] if n else [()]
            for tcp_towers in placements:
                if any(k >= n or k < 0 for k in tcp_towers):
                    continue
                key = tuple(sorted(set(tcp_towers)))
                if key in seen_pl:
                    continue
                seen_pl.add(key)
                for pos in ("3", "0", "last") if tcp_towers else ("3",):
                    yield list(residues), key, pos


_st: t.Dict[str, t.Any] = {}


def setup(seed: int):
    if _st.get("seed") != seed:
        d = seams.Drbg(("C18", seed))
        rk = seams.make_root(d, "SHA256")
        blob = cms.ref_encrypt(rk, SID, b"c18", (361, 3, 5), cek=d.bytes(32), gcm_nonce_=d.bytes(12), key_nonce=d.bytes(32))
        _st.update(seed=seed, rk=rk, blob=blob)
    return _st["rk"], _st["blob"]


_HINTS = ["padded", "zero", "max"]  # alloc_hint of the ept_map response: exact, "no hint supplied" (0), larger than the stub
_hint_i = [0]


def through_stack(seed: int, api: str, stub: bytes, isd_port: t.Optional[int], step_limit: int, server: str = "dc"):
    """-> (status, value, attempts) with status ok|exc|net|budget|blocks"""
    import dpapi_ng

    rk, blob = setup(seed)
    dc = refdc.DC([rk], now=(361, 10, 12), isd_port=isd_port or 1)
    dc.epm_stub = stub
    import zlib

    h_ = zlib.crc32(stub + api.encode() + server.encode())  # a function of the case, so that a replay meets the same server shape
    dc.reply_alloc_hint = _HINTS[h_ % 3]
    dc.epm_teardown = (h_ >> 3) % 2 == 0  # for half of the cases the endpoint mapper is gone by the time the client closes its connection
    with transport.network(dc) as hub, secctx.scripted_client(lambda u, p, **kw: secctx.ScriptedContext([b"C1"], 16)):
        try:
            if api == "sync":
                v = budget.run(step_limit, dpapi_ng.ncrypt_unprotect_secret, blob, server=server, username="u", password="p", auth_protocol="ntlm")[0]
            else:
                v = budget.run(step_limit, vloop.run, dpapi_ng.async_ncrypt_unprotect_secret(blob, server=server, username="u", password="p", auth_protocol="ntlm"))[0]
            st = "ok"
        except seams.NeedsNetwork as e:
            st, v = "net", repr(e)
        except budget.BudgetExceeded as e:
            st, v = "budget", repr(e)
        except (transport.BlocksForever, transport.Spin, vloop.Deadlock) as e:
            st, v = "blocks", repr(e)
        except Exception as e:  # noqa: BLE001
            st, v = "exc", (type(e).__name__, str(e)[:160])
        return st, v, list(hub.attempts)


def floors_of(E, tower_obj) -> t.List[epm.Floor]:
    out = []
    for f in tower_obj:
        raw = f.pack()
        out.extend(epm.parse_tower(struct.pack("<H", 1) + raw))
    return out


def case_wellformed(seed: int, api: str, residues, tcp_towers, pos, status: int, handle: bytes):
    import dpapi_ng._epm as E

    towers = [tower(i, r, pos if i in tcp_towers else None) for i, r in enumerate(residues)]
    stub = epm.ept_map_response(towers, status, handle)
    port = expected_port(towers)
    case = ["wf", api, list(residues), list(tcp_towers), pos, status, handle != b"\x00" * 20]
    # decoder view
    try:
        dec = E.EptMapResult.unpack(stub)
        got = [floors_of(E, tw) for tw in dec.towers]
        if got != [list(tw) for tw in towers] or dec.status != status:
            return case, ("decode.towers", {"got_towers": len(got), "expected": len(towers), "status": dec.status})
        eh = dec.entry_handle
        if (eh is None) != (handle == b"\x00" * 20):
            return case, ("decode.handle", {"got": repr(eh)})
    except Exception as e:  # noqa: BLE001
        return case, (f"decode.exc.{type(e).__name__}", {"exc": repr(e), "stub": stub.hex()[:300]})
    st, v, attempts = through_stack(seed, api, stub, port, 400000)
    if status != 0 or port is None:
        if st != "exc" or len(attempts) != 1:
            return case, ("stack.error-expected", {"status": st, "value": repr(v)[:200], "connections": attempts})
        return case, None
    if st != "ok" or v != b"c18":
        return case, ("stack.failed", {"status": st, "value": repr(v)[:200], "connections": attempts, "expected_port": port})
    if attempts != [("dc", 135), ("dc", port)]:
        return case, ("stack.wrong-port", {"connections": attempts, "expected_port": port})
    return case, None


# spellings of the server argument: the second connection goes to exactly this host, on exactly the announced port
SERVERS = [
    "dc", "DC01.Verif.Test", "dc01.verif.test.", "10.0.0.5", "010.0.0.5", "::1", "fd00:db8::1:10", "2001:db8:0:1::53", "2001:db8::beef", "fe80::1%eth0",
    "[::1]", "dc-135", "dc.135", "135", "49664", "xn--dc-1ia.test", "d\u00e7.test", "dc_01", "a" * 63 + ".test",
]
SERVER_PORTS = [1, 136, 1025, 5000, 49664, 65535]


SUBV = lambda actual: [0, 1, 2, max(actual - 1, 0), actual + 1, 2**16, 2**32, 2**40, 2**63, 2**64 - 1]  # noqa: E731


def sites(stub: bytes, ntowers: int) -> t.List[t.Tuple[int, int, int]]:
    """(offset, width, actual value) of count/length fields"""
    out = [(20, 4, ntowers), (24, 8, ntowers), (40, 8, ntowers)]
    p = 48 + 8 * ntowers
    for _ in range(min(ntowers, 2)):
        p += -p % 8
        ln = struct.unpack("<I", stub[p + 8 : p + 12])[0]
        fc = struct.unpack("<H", stub[p + 12 : p + 14])[0]
        out += [(p, 8, ln), (p + 8, 4, ln), (p + 12, 2, fc), (p + 14, 2, struct.unpack("<H", stub[p + 14 : p + 16])[0])]
        p += 12 + ln
    return out


def direct(data: bytes):
    import dpapi_ng._epm as E

    lim = 50000 + 100 * len(data)
    tracemalloc.start()
    st, val, steps, _ = budget.outcome(lim, E.EptMapResult.unpack, data)
    peak = tracemalloc.get_traced_memory()[1]
    tracemalloc.stop()
    if st == "budget":
        return ("adv.steps", {"len": len(data), "limit": lim, "bytes": data[:96].hex()}), steps, peak
    if peak > (1 << 20) + 64 * len(data):
        return ("adv.memory", {"len": len(data), "peak": peak, "bytes": data[:96].hex()}), steps, peak
    return None, steps, peak


def base_replies() -> t.List[t.Tuple[bytes, int]]:
    out = []
    for n in (0, 1, 2, 3):
        for s in range(5):
            tws = [tower(i, (s + 3 * i) % 8, "3" if i == n - 1 else None) for i in range(n)]
            out.append((epm.ept_map_response(tws, 0), n))
    return out


def subst(stub: bytes, off: int, width: int, val: int) -> bytes:
    return stub[:off] + (val & ((1 << 8 * width) - 1)).to_bytes(width, "little") + stub[off + width :]


def run_overlap(seed: int, acc, bound: int) -> int:
    """two async unprotect calls in flight at once; every reply of the DC arrives in two TCP segments (16-byte header | rest) and the
    explorer interleaves the segments of the two connections: both calls must find the port and return the plaintext"""
    import dpapi_ng

    from mc import explorer, overlap

    rk, blob = setup(seed)
    cnt = [0]
    for ntow in (1, 3):

        def body(ch, ntow=ntow):
            dc = refdc.DC([rk], now=(361, 10, 12))
            towers = [tower(i, (3 * i + 1) % 8, "3" if i == ntow - 1 else None) for i in range(ntow)]
            dc.isd_port = expected_port(towers) or 1
            dc.epm_stub = epm.ept_map_response(towers, 0, b"\x00" * 20)
            dc.segment = lambda reply: [reply[:16], reply[16:]] if len(reply) > 16 else [reply]
            kw = dict(server="dc", username="u", password="p", auth_protocol="ntlm")
            facs = [lambda: dpapi_ng.async_ncrypt_unprotect_secret(blob, **kw), lambda: dpapi_ng.async_ncrypt_unprotect_secret(blob, **kw)]
            return overlap.run(ch, dc, facs, [secctx.scripted_client(lambda u, p, **k: secctx.ScriptedContext([b"C1"], 16))], per_chunk=True)

        def on_exec(ch, r, ntow=ntow):
            status, res, order = r
            cnt[0] += 1
            case = ["overlap", ntow, ch.choices]
            acc.nt(("overlap", ntow, tuple(ch.choices)))
            acc.set_add("overlap_orders", tuple(order))
            if status != "ok":
                acc.violate("overlap." + status, case, {"order": order}, size=len(ch.choices))
                return
            for i, (st, v) in enumerate(res):
                if st != "ok" or bytes(v) != b"c18":
                    acc.violate("overlap.call-failed", case + [i], {"outcome": st, "value": repr(v)[:160], "order": order}, size=len(ch.choices))
            acc.outcome("overlap-ok")

        explorer.explore(body, bound, on_exec)
    return cnt[0]


def shards(tier: str, seed: int):
    out = []
    for api in ("sync", "async"):
        for part in range(8):
            out.append(["wf", api, part])
    out += [["prefix"], ["zeros"]]
    out += [["pairs", i] for i in range(20)]
    out += [["stack-adv", api] for api in ("sync", "async")]
    out.append(["overlap", 2 if tier == "quick" else 3])
    out += [["servers", api] for api in ("sync", "async")]
    out += [["bigreply", api] for api in ("sync", "async")]
    return out


def run_shard(shard, tier, seed, acc) -> None:
    seams.block_network()
    what = shard[0]
    if what == "overlap":
        n = run_overlap(seed, acc, shard[1])
        acc.ev(n)
        acc.states += n
        acc.transitions += n * 20
        acc.sample({"two async calls in flight": "replies in two segments (header | rest), interleaved segment by segment", "deviation_bound": shard[1], "interleavings": n})
        return
    if what == "bigreply":
        # replies that fill the fragment size the client itself advertised in its bind (max_recv_frag = 5840): towers with large opaque floors
        # in front of the TCP tower, response PDUs of 3 000 .. 5 840 octets in one fragment
        api = shard[1]
        n = 0
        for target in (3000, 4096, 4272, 4280, 4281, 4288, 4300, 5000, 5500, 5800, 5832, 5840):
            for nfill in (1, 4):
                z = 0
                best = None
                for z in range(0, 6000):
                    fill = [[epm.uuid_floor(rpc.ISD_KEY), (0x55, b"", bytes(z // nfill + (1 if i < z % nfill else 0)))] for i in range(nfill)]
                    tw = fill + [[epm.uuid_floor(rpc.ISD_KEY), epm.uuid_floor(rpc.NDR), epm.rpc_co_floor(0), epm.tcp_floor(49700), epm.ip_floor(7)]]
                    stub = epm.ept_map_response(tw, 0)
                    if 24 + len(stub) >= target - 7:
                        best = stub
                        break
                if best is None or 24 + len(best) > 5840:
                    continue
                case = ["bigreply", api, target, nfill, 24 + len(best)]
                st, v, attempts = through_stack(seed, api, best, 49700, 2000000)
                n += 1
                acc.nt(("bigreply", api, target, nfill))
                if st != "ok" or v != b"c18" or attempts != [("dc", 135), ("dc", 49700)]:
                    acc.violate("bigreply.failed", case, {"status": st, "value": repr(v)[:200], "connections": attempts, "pdu_octets": 24 + len(best)}, size=target)
                else:
                    acc.outcome("bigreply-ok")
        acc.ev(n)
        acc.states += n
        acc.transitions += n
        acc.sample({"api": api, "response PDU sizes": "3000 .. 5840 octets (the client's own max_recv_frag)", "large opaque floors in front of the TCP tower": [1, 4]})
        return
    if what == "servers":
        api = shard[1]
        n = 0
        for server in SERVERS:
            for port in SERVER_PORTS:
                for tcp_at in ("3", "last"):
                    case = ["servers", api, server, port, tcp_at]
                    tw = [epm.tcp_floor(port) if f[0] == epm.P_TCP else f for f in tower(0, 0, tcp_at)]
                    stub = epm.ept_map_response([tw], 0)
                    st, v, attempts = through_stack(seed, api, stub, port, 400000, server=server)
                    n += 1
                    acc.nt(("servers", server, port, tcp_at))
                    if st != "ok" or v != b"c18":
                        acc.violate("servers.failed", case, {"status": st, "value": repr(v)[:200], "connections": attempts}, size=len(server))
                    elif attempts != [(server, 135), (server, port)]:
                        acc.violate("servers.wrong-endpoint", case, {"connections": attempts, "expected": [[server, 135], [server, port]]}, size=len(server))
                    else:
                        acc.outcome("servers-ok")
        acc.ev(n)
        acc.states += n
        acc.transitions += n
        acc.sample({"api": api, "server spellings": SERVERS, "announced ports": SERVER_PORTS})
        return
    if what == "wf":
        api, part = shard[1], shard[2]
        n = 0
        for idx, (residues, tcp_towers, pos) in enumerate(gen_lists(tier)):
            if idx % 8 != part:
                continue
            combos = [(0, b"\x00" * 20)]
            if tier == "thorough" or idx % 16 == part:
                combos += [(s, b"\x00" * 20) for s in STATUSES[1:]] + [(0, HANDLE)]
            for status, handle in combos:
                if acc.too_many():
                    return
                case, v = case_wellformed(seed, api, residues, tcp_towers, pos, status, handle)
                n += 1
                acc.nt(("wf", api, tuple(residues), tcp_towers, pos, status, handle))
                acc.set_add("residue_vectors", tuple(residues))
                if v:
                    acc.violate(v[0], case, v[1], size=len(residues) * 100 + sum(residues))
                    acc.outcome("wf-violation")
                else:
                    acc.outcome("wf-port-ok" if status == 0 and tcp_towers else "wf-error-ok")
        acc.ev(n)
        acc.states += n
        acc.transitions += n
        acc.sample({"api": api, "tower_length_residues": residues, "tcp_floor_in_towers": list(tcp_towers), "tcp_floor_position": pos})
    elif what == "prefix":
        n = 0
        for stub, nt in base_replies():
            for cut in range(len(stub)):
                v, steps, peak = direct(stub[:cut])
                n += 1
                acc.stat_max("lines_adversarial", steps)
                acc.stat_max("peak_alloc_adversarial", peak)
                if v:
                    acc.violate(v[0], ["prefix", stub.hex(), cut], v[1], size=cut)
        acc.ev(n)
        acc.nt_counted(n)
        acc.states += n
        acc.transitions += n
        acc.outcome("adv-terminated", n)
    elif what == "zeros":
        n = 0
        for ln in range(65):
            for fill in (b"\x00", b"\xff", b"\x01"):
                v, steps, peak = direct(fill * ln)
                n += 1
                if v:
                    acc.violate(v[0], ["zeros", ln, fill.hex()], v[1], size=ln)
        acc.ev(n)
        acc.nt_counted(n)
        acc.states += n
        acc.transitions += n
        acc.outcome("adv-terminated", n)
    elif what == "pairs":
        stub, nt = base_replies()[shard[1]]
        ss = sites(stub, nt)
        n = 0
        for off, width, actual in ss:
            for val in SUBV(actual):
                v, steps, peak = direct(subst(stub, off, width, val))
                n += 1
                acc.stat_max("lines_adversarial", steps)
                acc.stat_max("peak_alloc_adversarial", peak)
                if v:
                    acc.violate(v[0], ["subst1", shard[1], off, width, str(val)], v[1], size=1)
        for (o1, w1, a1), (o2, w2, a2) in itertools.combinations(ss, 2):
            for v1 in SUBV(a1):
                for v2 in SUBV(a2):
                    if acc.too_many():
                        return
                    v, steps, peak = direct(subst(subst(stub, o1, w1, v1), o2, w2, v2))
                    n += 1
                    acc.stat_max("lines_adversarial", steps)
                    acc.stat_max("peak_alloc_adversarial", peak)
                    if v:
                        acc.violate(v[0], ["subst2", shard[1], o1, w1, str(v1), o2, w2, str(v2)], v[1], size=2)
        acc.ev(n)
        acc.nt_counted(n)
        acc.states += n
        acc.transitions += n
        acc.outcome("adv-terminated", n)
        acc.sample({"reply_with_towers": nt, "substituted_fields": [[o, w] for o, w, _ in ss], "values": [str(x) for x in SUBV(nt)]})
    elif what == "stack-adv":
        api = shard[1]
        n = 0
        for bi, (stub, nt) in enumerate(base_replies()):
            for off, width, actual in sites(stub, nt):
                for val in SUBV(actual):
                    data = subst(stub, off, width, val)
                    st, v, attempts = through_stack(seed, api, data, 49664 + max(nt - 1, 0), 400000 + 100 * len(data))
                    n += 1
                    acc.outcome(f"stack-adv:{st}")
                    if st in ("budget", "blocks"):
                        acc.violate(f"adv.stack.{st}", ["stack-adv", api, bi, off, width, str(val)], {"detail": v}, size=1)
        acc.ev(n)
        acc.nt_counted(n)
        acc.states += n
        acc.transitions += n
    else:
        raise AssertionError(shard)


def replay(case, seed, acc) -> None:
    seams.block_network()
    acc.ev()
    what = case[0]
    if what == "overlap":
        run_overlap(seed, acc, 3)
        for kk in list(acc.violations):
            acc.violations[kk] = [e for e in acc.violations[kk] if e["case"][:3] == case[:3]]
            if not acc.violations[kk]:
                del acc.violations[kk]
        acc.violation_count = sum(len(v) for v in acc.violations.values())
        return
    if what in ("servers", "bigreply"):
        run_shard([what, case[1]], "quick", seed, acc)
        for kk in list(acc.violations):
            acc.violations[kk] = [e for e in acc.violations[kk] if e["case"] == case]
            if not acc.violations[kk]:
                del acc.violations[kk]
        acc.violation_count = sum(len(v) for v in acc.violations.values())
        return
    if what == "wf":
        _, api, residues, tcp_towers, pos, status, handle = case
        c, v = case_wellformed(seed, api, residues, tuple(tcp_towers), pos, status, HANDLE if handle else b"\x00" * 20)
        if v:
            acc.violate(v[0], case, v[1])
    elif what == "prefix":
        v, _, _ = direct(bytes.fromhex(case[1])[: case[2]])
        if v:
            acc.violate(v[0], case, v[1])
    elif what == "zeros":
        v, _, _ = direct(bytes.fromhex(case[2]) * case[1])
        if v:
            acc.violate(v[0], case, v[1])
    elif what in ("subst1", "subst2"):
        stub, nt = base_replies()[case[1]]
        data = subst(stub, case[2], case[3], int(case[4]))
        if what == "subst2":
            data = subst(data, case[5], case[6], int(case[7]))
        v, _, _ = direct(data)
        if v:
            acc.violate(v[0], case, v[1])
    elif what == "stack-adv":
        _, api, bi, off, width, val = case
        stub, nt = base_replies()[bi]
        st, v, attempts = through_stack(seed, api, subst(stub, off, width, int(val)), 49664 + max(nt - 1, 0), 400000)
        if st in ("budget", "blocks"):
            acc.violate(f"adv.stack.{st}", case, {"detail": v})


def calibrate() -> None:
    from mc.runner import HarnessError

    try:
        epm.calibrate()
        cms.calibrate()
    except AssertionError as e:
        raise HarnessError(f"calibration failed: {e!r}") from e


def finish(tier, seed, merged) -> None:
    from mc.runner import Vacuous

    if not merged.outcomes.get("wf-port-ok") and not merged.violation_count:
        raise Vacuous("no well-formed reply led to a second connection")
