"""C20 — DC discovery asks the right SRV name and picks the best record."""
from __future__ import annotations

import itertools
import typing as t

from env import refdc, secctx, seams, transport
from mc import vloop
from ref import cms

ID = "C20"
LEVEL = "exploration"
RULE = (
    "complete enumeration of every ordered list of 1..5 SRV records over priority in {0,1,2} x weight in {0,1,2} (sum 9^k = 66,429 lists: all multisets in all permutations), distinct ports, targets "
    "absolute or relative by position, x domain in {given, None, ''} cycled; 16-bit extremes of weight/priority {4095, 4096, 65535}, for lookup_dc and async_lookup_dc with dns.resolver.resolve / dns.asyncresolver.resolve replaced by a recorder returning a real "
    "dnspython Answer. Oracle: exactly one query, type SRV, name _ldap._tcp.dc._msdcs.<domain> (bare prefix with search enabled when no domain); result has minimal (priority, -weight); it is one of the "
    "records with port/weight/priority unchanged and target without trailing dot; sync == async. Plus the public API without `server` for 60 lists: the first connection goes to (chosen target, 135). "
    "Every list is distinct by construction; non-trivial = lists with >= 2 records."
    ' Also answers parsed from wire whose ADDITIONAL section carries A / AAAA records for every subset of the targets (all ordered lists of 1..3 records); 1..3 async lookups in flight at once with a suspending resolver on three successive event loops.'
    ' Also answer sets of 15..255 records with the best record at the front, around positions 16 / 32 / 64, in the middle and at the end, and lists in which every second target is the root name.'
)
ASSUME = ["dns.resolver.resolve / dns.asyncresolver.resolve are the library's DNS entry points (seam)"]
BOUND = {"quick": "all 66,429 ordered lists, both flavours", "thorough": "same + full weight domain {0,1,65535} variant"}
DOMAINS = ["domain.test", "sub.corp.example.com", "x", None, "", "CORP.TEST", "Corp.Example.Com", "xn--bcher-kva.example", "a-b_c.d0", "corp.test.", "Sub.Example.Com."]  # fully qualified spellings (trailing root dot) stay absolute  # "" must behave like None (bare prefix through the search list) in both flavours
SID = "S-1-5-21-1-2-3-1104"


def same_qname(qn: str, expq: str) -> bool:
    """a fully qualified domain (trailing root dot) must be asked as it was given; otherwise a trailing dot on the query is not judged here"""
    return qn == expq if expq.endswith(".") else qn.rstrip(".") == expq


def make_answer(qname_text: str, records: t.Sequence[t.Tuple[int, int, int, str]]):
    import dns.message
    import dns.name
    import dns.rdata
    import dns.rdataclass
    import dns.rdatatype
    import dns.resolver
    import dns.rrset

    absq = qname_text if qname_text.endswith(".") else qname_text + "."
    ans = _TEMPLATES.get(absq)
    if ans is not None:
        ans.rrset.clear()
        for prio, weight, port, target in records:
            ans.rrset.add(_rdata(prio, weight, port, target))
        return ans
    rr = dns.rrset.from_text_list(absq, 600, "IN", "SRV", ["0 0 1 placeholder.invalid."])
    q = dns.message.make_query(absq, "SRV")
    resp = dns.message.make_response(q)
    resp.answer.append(rr)
    resp = dns.message.from_wire(resp.to_wire())
    ans = dns.resolver.Answer(dns.name.from_text(absq), dns.rdatatype.SRV, dns.rdataclass.IN, resp)
    assert ans.rrset is not None
    ans.rrset.clear()
    for prio, weight, port, target in records:
        ans.rrset.add(_rdata(prio, weight, port, target))
    assert len(ans.rrset) == len(records)
    _TEMPLATES[absq] = ans
    return ans


_TEMPLATES: t.Dict[str, t.Any] = {}
_RD: t.Dict[t.Tuple[int, int, int, str], t.Any] = {}


def _rdata(prio: int, weight: int, port: int, target: str):
    import dns.rdata

    k = (prio, weight, port, target)
    if k not in _RD:
        _RD[k] = dns.rdata.from_text("IN", "SRV", f"{prio} {weight} {port} {target}", relativize=False)
    return _RD[k]


class Recorder:
    def __init__(self, records) -> None:
        self.records = records
        self.queries: t.List[t.Tuple[str, str, t.Any]] = []

    def _q(self, qname, rdtype="A", *a, **kw):
        import dns.rdatatype

        self.queries.append((str(qname), dns.rdatatype.to_text(dns.rdatatype.RdataType.make(rdtype)), kw.get("search", a[6] if len(a) > 6 else None)))
        return make_answer(str(qname), self.records)

    def resolve(self, qname, rdtype="A", *a, **kw):
        return self._q(qname, rdtype, *a, **kw)

    async def aresolve(self, qname, rdtype="A", *a, **kw):
        return self._q(qname, rdtype, *a, **kw)


def records_for(pw: t.Sequence[t.Tuple[int, int]], variant: int = 0):
    out = []
    if variant == 9:
        # RFC 2782: a target of "." - the record stays a record like any other (priority and weight decide), its target is the empty name
        for i, (p, w) in enumerate(pw):
            out.append((p, [0, 1, 2][w], 3890 + i, "." if i % 2 == 0 else f"dc{i}.example.com."))
        return out
    if variant >= 4:
        # records that name the SAME host several times (absolute / relative / other case / other port): the records stay distinct
        forms = ["dc.example.com.", "dc.example.com", "DC.example.com.", "dc.example.com.", "dc2.example.com."]
        for i, (p, w) in enumerate(pw):
            out.append((p, [0, 1, 2][w], 3890 + i, forms[(i + variant) % 5]))
        return out
    for i, (p, w) in enumerate(pw):
        target = f"dc{i}.example.com." if (i + variant) % 2 == 0 else f"dc{i}.rel"
        wmap = [[0, 1, 2], [0, 1, 2], [0, 1, 65535], [0, 4095, 4096]][variant % 4] if variant < 4 else [0, 1, 2]
        pmap = [0, 1, 2] if variant != 3 else [0, 10, 65535]
        out.append((pmap[p], wmap[w], 3890 + i, target))
    return out


def answer_with_additional(qname_text: str, records, with_address: t.Sequence[int]):
    """a real dns.resolver.Answer parsed from wire whose ADDITIONAL section carries A / AAAA records for some of the targets (what a DNS
    server may add when it happens to know the addresses)"""
    import dns.message
    import dns.name
    import dns.rdataclass
    import dns.rdatatype
    import dns.resolver
    import dns.rrset

    absq = qname_text if qname_text.endswith(".") else qname_text + "."
    q = dns.message.make_query(absq, "SRV")
    resp = dns.message.make_response(q)
    resp.answer.append(dns.rrset.from_text_list(absq, 600, "IN", "SRV", [f"{p} {w} {port} {tg if tg.endswith('.') else tg + '.example.net.'}" for p, w, port, tg in records]))
    for i in with_address:
        tg = records[i][3]
        tg = tg if tg.endswith(".") else tg + ".example.net."
        resp.additional.append(dns.rrset.from_text_list(tg, 600, "IN", "AAAA" if i % 2 else "A", ["fd00::%d" % (i + 1) if i % 2 else "10.0.0.%d" % (i + 1)]))
    resp = dns.message.from_wire(resp.to_wire())
    return dns.resolver.Answer(dns.name.from_text(absq), dns.rdatatype.SRV, dns.rdataclass.IN, resp)


def judge_additional(acc, pw, with_address) -> int:
    import dns.asyncresolver
    import dns.resolver

    from dpapi_ng import _dns as D

    recs = [(p, w, 3890 + i, f"dc{i}.example.com.") for i, (p, w) in enumerate(pw)]
    case = ["additional", [list(x) for x in pw], list(with_address)]
    best = min((p, -w) for p, w, _, _ in recs)
    got = {}
    # ONE answer object for both flavours (dnspython shuffles the records when it writes a message, so two separately built answers differ in order)
    ans = answer_with_additional("_ldap._tcp.dc._msdcs.example.com", recs, with_address)
    for flavour in ("sync", "async"):

        async def ares(*a, ans=ans, **k):
            return ans

        try:
            with seams.patched(dns.resolver, "resolve", lambda *a, ans=ans, **k: ans), seams.patched(dns.asyncresolver, "resolve", ares):
                if flavour == "sync":
                    r = D.lookup_dc("example.com")
                else:
                    co = D.async_lookup_dc("example.com")
                    try:
                        co.send(None)
                        raise AssertionError("async_lookup_dc awaited something else than the resolver")
                    except StopIteration as e:
                        r = e.value
        except Exception as e:  # noqa: BLE001
            acc.violate(f"additional.exc.{type(e).__name__}.{flavour}", case, {"exc": repr(e)}, size=len(pw))
            continue
        got[flavour] = (r.target, r.port, r.weight, r.priority)
        if (r.priority, -r.weight) != best:
            acc.violate(f"additional.selection.{flavour}", case, {"chosen": list(got[flavour]), "best_priority_weight": [best[0], -best[1]], "records": recs, "targets_with_address_in_additional_section": [recs[i][3] for i in with_address]}, size=len(pw))
    if len(got) == 2 and got["sync"] != got["async"]:
        acc.violate("additional.sync-async-differ", case, got, size=len(pw))
    return 2


def run_overlap_lookups(acc) -> int:
    """several async lookups in flight at once on one loop (the resolver really suspends), then again on a NEW loop of the same process"""
    import asyncio

    import dns.asyncresolver

    from dpapi_ng import _dns as D
    from mc import vloop

    n = 0
    recs = [(0, 5, 389, "dc1.example.com."), (0, 9, 389, "dc2.example.com."), (1, 100, 389, "dc3.example.com.")]
    for round_ in range(3):
        for k in (1, 2, 3):
            rec = Recorder(recs)

            async def ares(qname, rdtype="A", *a, rec=rec, **kw):
                await asyncio.sleep(0)
                await asyncio.sleep(0)
                return rec._q(qname, rdtype, *a, **kw)

            async def many(k=k):
                return await asyncio.gather(*[D.async_lookup_dc(f"d{i}.example.com") for i in range(k)], return_exceptions=True)

            case = ["overlap-lookups", round_, k]
            with seams.patched(dns.asyncresolver, "resolve", ares):
                try:
                    res = vloop.run(many())
                except Exception as e:  # noqa: BLE001
                    acc.violate(f"overlap-lookups.exc.{type(e).__name__}", case, {"exc": repr(e)})
                    continue
            n += k
            acc.nt(tuple(case))
            for i, r in enumerate(res):
                if isinstance(r, BaseException):
                    acc.violate(f"overlap-lookups.exc.{type(r).__name__}", case, {"lookup": i, "exc": repr(r), "loop_round": round_})
                elif (r.target, r.priority, r.weight) != ("dc2.example.com", 0, 9):
                    acc.violate("overlap-lookups.selection", case, {"lookup": i, "chosen": [r.target, r.priority, r.weight]})
                else:
                    acc.outcome("overlap-lookup-ok")
    return n


def judge(acc, pw, domain, variant, history=None) -> None:
    import dns.asyncresolver
    import dns.resolver

    from dpapi_ng import _dns as D

    recs = records_for(pw, variant)
    case = ["list", [list(x) for x in pw], domain, variant] + ([[list(map(list, h)) for h in history]] if history else [])
    results = {}
    for flavour in ("sync", "async"):
        rec = Recorder(recs)
        try:
            with seams.patched(dns.resolver, "resolve", rec.resolve), seams.patched(dns.asyncresolver, "resolve", rec.aresolve):
                if flavour == "sync":
                    r = D.lookup_dc(domain)
                else:
                    co = D.async_lookup_dc(domain)
                    try:
                        co.send(None)
                        raise AssertionError("async_lookup_dc awaited something else than the resolver")
                    except StopIteration as e:
                        r = e.value
        except Exception as e:  # noqa: BLE001
            acc.violate(f"exc.{type(e).__name__}.{flavour}", case, {"exc": repr(e)}, size=len(pw))
            return
        if len(rec.queries) != 1:
            acc.violate(f"query.count.{flavour}", case, {"queries": rec.queries}, size=len(pw))
            return
        qn, qt, search = rec.queries[0]
        expq = "_ldap._tcp.dc._msdcs" + (f".{domain}" if domain else "")
        if not domain and qn.endswith("."):
            acc.violate(f"query.absolute-name-without-domain.{flavour}", case, {"query": qn}, size=len(pw))
        if not same_qname(qn, expq) or qt != "SRV":
            acc.violate(f"query.name.{flavour}", case, {"query": [qn, qt], "expected": expq}, size=len(pw))
        if not domain and not search:
            acc.violate(f"query.search.{flavour}", case, {"search": search}, size=len(pw))
        best = min((p, -w) for p, w, _, _ in recs)
        try:
            got = (r.target, r.port, r.weight, r.priority)
        except Exception as e:  # noqa: BLE001
            acc.violate(f"result.shape.{flavour}", case, {"result": repr(r)}, size=len(pw))
            return
        if (r.priority, -r.weight) != best:
            acc.violate(f"selection.{flavour}", case, {"chosen": list(got), "best_priority_weight": [best[0], -best[1]], "records": recs}, size=len(pw))
        match = [x for x in recs if x[3].rstrip(".") == r.target and x[2] == r.port and x[1] == r.weight and x[0] == r.priority]
        if not match:
            acc.violate(f"record.altered.{flavour}", case, {"chosen": list(got), "records": recs}, size=len(pw))
        results[flavour] = got
    if len(results) == 2 and results["sync"] != results["async"]:
        acc.violate("sync-async-differ", case, results, size=len(pw))


def shards(tier: str, seed: int):
    out = [["lists", k, a] for k in (1, 2, 3, 4) for a in [None]]
    for first in range(9):
        out.append(["lists", 5, first])
    out.append(["api"])
    out.append(["samehost"])
    out.append(["bigvalues"])
    out.append(["faults"])
    out.append(["envvars"])
    out.append(["additional"])
    out.append(["bigsets"])
    out.append(["overlap-lookups"])
    for part in range(8):
        out.append(["pairs", part])
    if tier == "thorough":
        for first in range(9):
            out.append(["lists65535", 4, first])
    return out


PW = [(p, w) for p in range(3) for w in range(3)]


FAULTS = ["NXDOMAIN", "NoAnswer", "LifetimeTimeout", "NoNameservers"]


def failing_lookup(fault: str, domain, flavour: str):
    """one lookup whose resolver call raises; -> (queries made, exception or None)"""
    import dns.asyncresolver
    import dns.resolver

    from dpapi_ng import _dns as D

    queries: t.List[str] = []

    def boom(qname, *a, **kw):
        queries.append(str(qname))
        raise getattr(dns.resolver, fault)()

    async def aboom(qname, *a, **kw):
        return boom(qname)

    try:
        with seams.patched(dns.resolver, "resolve", boom), seams.patched(dns.asyncresolver, "resolve", aboom):
            if flavour == "sync":
                D.lookup_dc(domain)
            else:
                co = D.async_lookup_dc(domain)
                try:
                    co.send(None)
                except StopIteration:
                    pass
        return queries, None
    except Exception as e:  # noqa: BLE001
        return queries, e


ENV_PROFILES = [
    {"USERDNSDOMAIN": "CORP.TEST", "USERDOMAIN": "CORP", "LOGONSERVER": "\\\\DC01", "COMPUTERNAME": "WS7"},
    {"LOCALDOMAIN": "lab.example", "RES_OPTIONS": "ndots:3", "HOSTNAME": "ws7.lab.example", "DNSDOMAIN": "lab.example", "DOMAINNAME": "lab.example", "KRB5_CONFIG": "/nonexistent/krb5.conf", "DPAPI_NG_DOMAIN": "evil.example", "DOMAIN": "evil.example"},
]


def env_child(seed: int) -> None:
    """runs in a child interpreter whose ENVIRONMENT carries domain-ish variables set before the library is imported"""
    import json as _json

    from mc.runner import Acc, apply_ambient

    apply_ambient(False)
    seams.block_network()
    import socket as _socket

    _socket.getfqdn = lambda *a: "build7.compute.internal"  # type: ignore[assignment]
    _socket.gethostname = lambda: "build7"  # type: ignore[assignment]
    acc = Acc()
    n = 0
    for pw in [((0, 0),), ((0, 1), (1, 2)), ((1, 0), (0, 2), (0, 1))]:
        for dom in DOMAINS:
            for variant in (0, 1):
                judge(acc, pw, dom, variant)
                n += 1
    out = [[k, e["case"], e["detail"]] for k, lst in acc.violations.items() for e in lst[:3]]
    print("CHILDRESULT " + _json.dumps({"evaluations": n, "violations": out, "count": acc.violation_count}, default=str))


def run_env_child(seed: int, profile: dict):
    import json as _json
    import os
    import subprocess
    import sys

    from mc.runner import TARGET, VERIF

    env = dict(os.environ, PYTHONHASHSEED="0", PYTHONDONTWRITEBYTECODE="1", **profile)
    code = f"import sys; sys.path[:0] = [{TARGET!r}, {VERIF!r}]; from checks import c20; c20.env_child({seed})"
    from mc import budget as _b

    with _b.idle_ok():
        r = subprocess.run([sys.executable, "-c", code], env=env, capture_output=True, text=True, timeout=600)
    line = next((ln for ln in r.stdout.splitlines() if ln.startswith("CHILDRESULT ")), None)
    if line is None:
        raise RuntimeError(f"env child failed: {r.stderr[-400:]}")
    return _json.loads(line[len("CHILDRESULT "):])


def run_shard(shard, tier, seed, acc) -> None:
    if shard[0] == "envvars":
        # environment variables are part of the environment: the lookup asks the name the ARGUMENTS determine, whatever the process
        # environment says about domains, logon servers or resolver defaults
        n = 0
        for i_, prof in enumerate(ENV_PROFILES):
            res = run_env_child(seed, prof)
            n += res["evaluations"]
            for key, case, det in res["violations"]:
                acc.violate("env." + key, ["envvars", i_, case], det)
            acc.outcome(f"envvars:{i_}:" + ("viol" if res["count"] else "ok"))
        acc.ev(n)
        acc.nt_counted(n)
        acc.sample({"environment profiles": ENV_PROFILES})
        return
    seams.block_network()
    import socket as _socket

    # the host's own names are part of the environment: owned, so that a fallback which consults them behaves the same everywhere
    _socket.getfqdn = lambda *a: "build7.compute.internal"  # type: ignore[assignment]
    _socket.gethostname = lambda: "build7"  # type: ignore[assignment]
    if shard[0] == "bigsets":
        # answer sets far larger than a handful (a big domain has dozens of DCs): the single best record at the front, around position 16 / 32 / 64,
        # and at the very end; and sets in which every second target is "."
        n = 0
        for size in (15, 16, 17, 18, 31, 32, 33, 64, 65, 120, 255):
            for best_at in sorted({0, 1, 14, 15, 16, 17, 31, 32, 63, 64, size // 2, size - 2, size - 1}):
                if not 0 <= best_at < size:
                    continue
                for filler in ((1, 1), (0, 0), (2, 2)):
                    pw = [filler] * size
                    pw[best_at] = (0, 2) if filler != (0, 0) else (0, 1)
                    judge(acc, pw, "example.com", 0)
                    n += 1
        for k in (1, 2, 3):
            for pw in itertools.product(itertools.product(range(3), range(3)), repeat=k):
                judge(acc, list(pw), "example.com", 9)
                n += 1
        acc.ev(n)
        acc.nt_counted(n)
        acc.sample({"answer set sizes": [15, 16, 17, 18, 31, 32, 33, 64, 65, 120, 255], "best record at": "front / 14..17 / 31..32 / 63..64 / middle / end", "root targets": "every second target is '.'"})
        return
    if shard[0] == "additional":
        n = 0
        for k in (1, 2, 3):
            for pw in itertools.product(itertools.product(range(3), range(3)), repeat=k):
                for m in range(1 << k):
                    n += judge_additional(acc, pw, [i for i in range(k) if m >> i & 1])
        acc.ev(n)
        acc.nt_counted(n)
        acc.sample({"additional section": "A / AAAA records for every subset of the targets", "lists": "all ordered lists of 1..3 records over priority x weight in {0,1,2}"})
        return
    if shard[0] == "overlap-lookups":
        n = run_overlap_lookups(acc)
        acc.ev(n)
        acc.sample({"async lookups in flight at once": [1, 2, 3], "successive event loops in one process": 3})
        return
    if shard[0] == "faults":
        # a resolver failure surfaces as an error, asks only the right name, and leaves nothing behind: later lookups are judged as usual
        n = 0
        small = [((0, 0),), ((0, 1), (1, 2)), ((1, 0), (0, 2), (0, 1))]
        for fault in FAULTS:
            for fdom in (None, "", "domain.test", "other.example"):
                for flavour in ("sync", "async"):
                    q, e = failing_lookup(fault, fdom, flavour)
                    case = ["fault", fault, fdom, flavour]
                    n += 1
                    expq = "_ldap._tcp.dc._msdcs" + (f".{fdom}" if fdom else "")
                    if e is None:
                        acc.violate("fault.swallowed", case, {"queries": q})
                    if any(not same_qname(x, expq) for x in q):
                        acc.violate("fault.other-name-queried", case, {"queries": q, "expected": expq})
                    for pw in small:
                        for dom in (None, "domain.test", fdom):
                            before = acc.violation_count
                            judge(acc, pw, dom, 0)
                            n += 1
                            if acc.violation_count != before:
                                acc.violate("after-fault", ["after-fault", fault, fdom, flavour, [list(x) for x in pw], dom], {"note": "a lookup after a failed one is judged wrong (see the accompanying violation)"})
        acc.ev(n)
        acc.nt_counted(n)
        acc.outcome("fault-histories-judged", n)
        acc.sample({"resolver faults": FAULTS, "then": "ordinary lookups of the same / another / no domain"})
        return
    if shard[0] in ("lists", "lists65535"):
        _, k, first = shard
        n = 0
        it = itertools.product(PW, repeat=k) if first is None else ((PW[first],) + rest for rest in itertools.product(PW, repeat=k - 1))
        variant_base = 2 if shard[0] == "lists65535" else 0
        for pw in it:
            judge(acc, pw, DOMAINS[n % len(DOMAINS)], variant_base + (n // 4) % 2)
            n += 1
        acc.ev(n)
        acc.nt_counted(n if k > 1 else 0)
        if k == 1:
            acc.nt_counted(0)
        acc.outcome("lists-judged", n)
        acc.sample({"records(priority,weight)": [list(x) for x in pw], "domain": DOMAINS[(n - 1) % 5]})
    elif shard[0] == "bigvalues":
        n = 0
        for k in (1, 2, 3):
            for pw in itertools.product(PW, repeat=k):
                for variant in (2, 3):
                    judge(acc, pw, DOMAINS[n % len(DOMAINS)], variant)
                    n += 1
        acc.ev(n)
        acc.nt_counted(n)
        acc.outcome("bigvalues-judged", n)
        acc.sample({"weights": [0, 4095, 4096, 65535], "priorities": [0, 10, 65535], "lists": "all ordered lists of 1..3 records"})
    elif shard[0] == "samehost":
        n = 0
        for k in (2, 3):
            for pw in itertools.product(PW, repeat=k):
                for variant in (4, 5, 6):
                    judge(acc, pw, DOMAINS[n % len(DOMAINS)], variant)
                    n += 1
        acc.ev(n)
        acc.nt_counted(n)
        acc.outcome("samehost-judged", n)
        acc.sample({"records naming the same host": ["dc.example.com.", "dc.example.com", "DC.example.com."], "lists": "all ordered lists of 2..3 records"})
    elif shard[0] == "pairs":
        # histories: two (and three) lookups of the SAME name in a row with different answer sets - a lookup must not remember anything
        small = [pw for k in (1, 2, 3) for pw in itertools.product([(0, 0), (0, 1), (0, 2), (1, 2)], repeat=k)]
        n = 0
        for i, first in enumerate(small):
            if i % 8 != shard[1]:
                continue
            for second in small:
                for dom in ("domain.test", None):
                    judge(acc, first, dom, 0)
                    judge(acc, second, dom, 0, history=[first])
                    n += 2
        acc.ev(n)
        acc.nt_counted(n)
        acc.outcome("pair-histories-judged", n)
        acc.sample({"history": [[list(x) for x in small[5]], [list(x) for x in small[40]]], "same SRV name": True})
    else:
        import dns.asyncresolver
        import dns.resolver

        import dpapi_ng

        d = seams.Drbg(("C20", seed))
        rk = seams.make_root(d, "SHA256")
        n = 0
        for i, pw in enumerate(itertools.islice(itertools.product(PW, repeat=3), 0, 729, 25)):
            recs = records_for(pw, i % 2)
            best = min((p, -w) for p, w, _, _ in recs)
            ok_targets = {x[3].rstrip(".") for x in recs if (x[0], -x[1]) == best}
            dom = ["domain.test", "corp.example", "emea.corp.test", "CORP.Example", "EMEA.corp.TEST"][i % 5]
            forest = [dom, dom, "corp.test", dom, "corp.test"][i % 5]  # a child domain: the blob's forest name is not its domain name - the lookup is for the DOMAIN
            blob = cms.ref_encrypt(rk, SID, b"c20", (361, 3, 5), cek=d.bytes(32), gcm_nonce_=d.bytes(12), key_nonce=d.bytes(32), domain=dom, forest=forest)
            for flavour in ("sync", "async"):
                for op in ("unprotect", "protect"):
                    rec = Recorder(recs)
                    dc = refdc.DC([rk], now=(361, 10, 12), domain=dom, forest=forest)
                    case = ["api", [list(x) for x in pw], flavour, op, i % 2]
                    with transport.network(dc) as hub, secctx.scripted_client(lambda u, p, **kw: secctx.ScriptedContext([b"C1"], 16)), seams.patched(dns.resolver, "resolve", rec.resolve), seams.patched(dns.asyncresolver, "resolve", rec.aresolve):
                        try:
                            kw = dict(username="u", password="p", auth_protocol="ntlm")
                            if op == "unprotect":
                                v = dpapi_ng.ncrypt_unprotect_secret(blob, **kw) if flavour == "sync" else vloop.run(dpapi_ng.async_ncrypt_unprotect_secret(blob, **kw))
                                good = bytes(v) == b"c20"
                            else:
                                v = dpapi_ng.ncrypt_protect_secret(b"c20", SID, domain_name=dom, **kw) if flavour == "sync" else vloop.run(dpapi_ng.async_ncrypt_protect_secret(b"c20", SID, domain_name=dom, **kw))
                                good = cms.ref_decrypt(rk, bytes(v)) == b"c20"
                        except Exception as e:  # noqa: BLE001
                            acc.violate(f"api.exc.{type(e).__name__}", case, {"exc": repr(e)})
                            continue
                    n += 1
                    expq = f"_ldap._tcp.dc._msdcs.{dom}"
                    if not good:
                        acc.violate("api.result", case, {})
                    if len(rec.queries) != 1 or not same_qname(rec.queries[0][0], expq):
                        acc.violate("api.query", case, {"queries": rec.queries, "expected": expq})
                    if not hub.attempts or hub.attempts[0][1] != 135 or hub.attempts[0][0] not in ok_targets or any(h != hub.attempts[0][0] for h, _ in hub.attempts):
                        acc.violate("api.connects-elsewhere", case, {"attempts": hub.attempts, "acceptable": sorted(ok_targets)})
                    acc.outcome("api-ok")
        acc.ev(n)
        acc.nt_counted(n)
        acc.sample({"api": "ncrypt_unprotect_secret(blob) without server", "first_connection": "(best SRV target, 135)"})


def replay(case, seed, acc) -> None:
    seams.block_network()
    acc.ev()
    if case[0] == "envvars":
        for key, c_, det in run_env_child(seed, ENV_PROFILES[case[1]])["violations"]:
            if c_ == case[2]:
                acc.violate("env." + key, case, det)
        return
    if case[0] == "additional":
        judge_additional(acc, [tuple(x) for x in case[1]], case[2])
        return
    if case[0] == "overlap-lookups":
        run_overlap_lookups(acc)
        return
    if case[0] in ("fault", "after-fault"):
        run_shard(["faults"], "quick", seed, acc)
        return
    if case[0] == "api":
        run_shard(["api"], "quick", seed, acc)
        for k in list(acc.violations):
            acc.violations[k] = [e for e in acc.violations[k] if e["case"] == case]
            if not acc.violations[k]:
                del acc.violations[k]
        acc.violation_count = sum(len(v) for v in acc.violations.values())
        return
    if case[0] == "list":
        hist = case[4] if len(case) > 4 else []
        for h in hist:
            judge(acc, [tuple(x) for x in h], case[2], case[3])
        acc.violations.clear()
        acc.violation_count = 0
        judge(acc, [tuple(x) for x in case[1]], case[2], case[3], history=[[tuple(x) for x in h] for h in hist] or None)


def finish(tier, seed, merged) -> None:
    from mc.runner import Vacuous

    if merged.evaluations < 66429:
        raise Vacuous("not all ordered lists were enumerated")
