"""C09 — encryption names the group key of the interval containing the current time.

The clock is an environment seam (time.time_ns / time.time); every enumerated instant is one
execution of the real protect API with an offline cache; the emitted blob is parsed by the
independent CMS reader and must name exactly floor-division interval of t.
"""
from __future__ import annotations

import time
import typing as t

from env import seams
from ref import cms, gkdi

ID = "C09"
LEVEL = "exploration"
B = gkdi.B
RULE = (
    "complete enumeration of clock values: every offset in [-64,+64] ticks around L2, L1 and L0 interval boundaries for 12 epochs "
    "(L0 = 316..512, i.e. 1970..2200) x sub-tick residues {0,99} ns x {sync, async}; thorough adds every L2 boundary 1970-2200 at "
    "offsets {-1,0}. A clock that advances on every read (torn reads), a walk over 140 consecutive intervals and jumps by whole L0/L1 periods on one cache are also enumerated. Each boundary is then crossed again backwards and in zig-zag order on the same cache. Also a cache without the root key whose first protect fetches the key from a DC with a clock 290 s / 120 s / 1 tick behind or ahead (7 skews x 3 boundary kinds x 3 first-call offsets x 11 later clock positions): every later protect that opens no connection names the interval of the local clock. Also a cache holding only seed keys obtained from a (reference) DC: boundary grid, and a grid of (primed envelope position incl. shapes without an L1 key) x (local clock position slightly behind/ahead). A case is non-trivial when the real protect API returned a blob whose key "
    "identifier was parsed by the reference reader; distinct = distinct (t, api, source)."
    ' Also, after an unprotect of a damaged blob (wrapped CEK, content, truncated, key-identifier nonce) on a root-key cache and on a seed-only cache, three protects that must still be served from the cache.'
)
ASSUME = [
    "time.time_ns/time.time are how the library reads the clock (an implementation reading it otherwise is detected and reported as collapsed coverage, not as a violation)",
    "ref/cms.py + ref/gkdi.py calibrated on the Windows vectors",
]
BOUND = {"quick": "12 epochs x 3 boundary kinds x 129 offsets x 2 residues x 2 APIs", "thorough": "quick + all ~201k L2 boundaries 1970-2200 x {-1,0}"}

SID = "S-1-5-21-2185496602-3367037166-1388177638-1103"
EPOCHS = [316, 317, 330, 361, 364, 365, 366, 400, 431, 463, 500, 512]


def drive(coro):
    try:
        coro.send(None)
    except StopIteration as e:
        return e.value
    coro.close()
    raise AssertionError("coroutine awaited something on an offline path")


def shards(tier: str, seed: int):
    out = []
    for ep in EPOCHS:
        for kind in ("L0", "L1", "L2"):
            out.append(["edge", ep, kind])
    import importlib.util

    if importlib.util.find_spec("env.refdc"):
        out.append(["seedkeys"])
        out.append(["seedgrid"])
    out.append(["real"])
    out.append(["tz"])
    out.append(["ambient"])
    out.append(["ticking"])
    out.append(["dcskew"])
    out.append(["afterfail"])
    out.append(["walk", 0])
    out.append(["walk", 1])
    out.append(["walk", 2])
    out.append(["walk", 3])
    if tier == "thorough":
        first = gkdi.EPOCH_FILETIME // B + 1
        last = (gkdi.EPOCH_FILETIME + int(230 * 365.25 * 86400 * 10**7)) // B
        step = (last - first) // 64 + 1
        for lo in range(first, last, step):
            out.append(["allL2", lo, min(lo + step, last)])
    return out


_state: t.Dict[str, t.Any] = {}


def worker_init() -> None:
    seams.block_network()


def _setup(seed: int):
    if _state.get("seed") != seed:
        import dpapi_ng

        d = seams.Drbg(("C09", seed))
        rk = seams.make_root(d, ["SHA512", "SHA256", "SHA1", "SHA384"][seed % 4])
        _state.update(seed=seed, rk=rk, cache=seams.make_cache(rk), mod=dpapi_ng)
    return _state["rk"], _state["cache"], _state["mod"]


def case(seed: int, tt: int, sub: int, api: str, cache=None, source: str = "root"):
    """returns (violation|None, outcome)"""
    rk, default_cache, mod = _setup(seed)
    cache = cache if cache is not None else default_cache
    exp = gkdi.interval(tt)
    with seams.clock(tt, sub):
        try:
            if api == "sync":
                blob = mod.ncrypt_protect_secret(b"x", SID, root_key_identifier=rk.rkid, cache=cache)
            else:
                blob = drive(mod.async_ncrypt_protect_secret(b"x", SID, root_key_identifier=rk.rkid, cache=cache))
        except seams.NeedsNetwork:
            if source == "seed":
                return None, "needs-network"  # allowed: cached seed keys do not cover this instant
            if source == "seed-strict":
                return ("protect.needs-network-although-covered", {"t": tt, "api": api}), "viol"
            return ("protect.needs-network", {"t": tt, "sub": sub, "api": api}), "viol"
        except Exception as e:  # noqa: BLE001
            return (f"protect.exc.{type(e).__name__}", {"t": tt, "sub": sub, "api": api, "exc": repr(e)}), "viol"
    try:
        b = cms.decode(bytes(blob))
        kid = gkdi.unpack_keyid(b.keyid)
    except Exception as e:  # noqa: BLE001
        return ("blob.unparseable", {"t": tt, "exc": repr(e)}), "viol"
    got = (kid.l0, kid.l1, kid.l2)
    if got != exp:
        real = gkdi.interval(time.time_ns() // 100 + gkdi.EPOCH_FILETIME)
        if got == real and real != exp:
            return None, "clock-seam-escaped"
        return ("interval", {"t": tt, "sub_ns": sub, "api": api, "source": source, "named": got, "expected": exp, "ticks_to_next_L0": (exp[0] + 1) * 1024 * B - tt}), "viol"
    try:
        if cms.ref_decrypt(rk, bytes(blob)) != b"x":
            return ("refdecrypt.plaintext", {"t": tt}), "viol"
    except Exception as e:  # noqa: BLE001
        return ("refdecrypt.exc", {"t": tt, "exc": repr(e)}), "viol"
    return None, "ok"


TZS = ["UTC0", "JST-9", "EST5EDT", "NPT-5:45", "<+14>-14"]


def tz_times() -> t.List[int]:
    out = []
    for ep in EPOCHS[:4]:
        base = ep * 1024 * B
        for edge in (base, base + 5 * 32 * B, base + 5 * 32 * B + 7 * B):
            for off in (-1, 0, 1, B // 10, B // 2, B - B // 10, B - 1):  # first/last tick, 1 h, 5 h, 9 h into the 10 h interval
                out.append(edge + off)
    return out


def tz_child(seed: int) -> None:
    """runs in a child interpreter started with another TZ: the library is imported under that time zone"""
    import json as _json

    worker_init()
    bad = []
    for tt in tz_times():
        for api in ("sync", "async"):
            v, _ = case(seed, tt, 0, api)
            if v:
                bad.append([tt, api, v[0], v[1]])
    print("TZRESULT " + _json.dumps(bad, default=str))


def run_tz(seed: int, tzname: str):
    import json as _json
    import os
    import subprocess
    import sys

    from mc.runner import TARGET, VERIF

    env = dict(os.environ, TZ=tzname, PYTHONHASHSEED="0", PYTHONDONTWRITEBYTECODE="1")
    code = f"import sys; sys.path[:0] = [{TARGET!r}, {VERIF!r}]; from checks import c09; c09.tz_child({seed})"
    from mc import budget as _b

    with _b.idle_ok():
        r = subprocess.run([sys.executable, "-c", code], env=env, capture_output=True, text=True, timeout=600)
    line = next((ln for ln in r.stdout.splitlines() if ln.startswith("TZRESULT ")), None)
    if line is None:
        raise RuntimeError(f"tz child failed under TZ={tzname}: {r.stderr[-400:]}")
    return _json.loads(line[len("TZRESULT "):])


def _seed_cache(seed: int, l0: int, pos=(31, 31)):
    """A cache that holds only what a DC returned earlier for (l0,) + pos - no root key."""
    from env import refdc

    rk, _, mod = _setup(seed)
    return refdc.primed_cache(rk, SID, (l0, pos[0], pos[1]))


AMBIENT = [("decimal", 28, "ROUND_HALF_EVEN"), ("decimal", 16, "ROUND_HALF_EVEN"), ("decimal", 10, "ROUND_UP"), ("decimal", 6, "ROUND_HALF_EVEN"), ("decimal", 1, "ROUND_CEILING"), ("intstr", 640, None)]


def ambient_cm(kind: str, val, extra):
    """numeric settings of the calling thread / interpreter that an application may have changed before it calls the library"""
    import contextlib
    import decimal
    import sys

    if kind == "decimal":
        return decimal.localcontext(decimal.Context(prec=val, rounding=getattr(decimal, extra)))

    @contextlib.contextmanager
    def intstr():
        old = sys.get_int_max_str_digits()
        sys.set_int_max_str_digits(val)
        try:
            yield
        finally:
            sys.set_int_max_str_digits(old)

    return intstr()


def run_shard(shard, tier, seed, acc) -> None:
    if shard[0] == "ambient":
        worker_init()
        n = 0
        for kind, val, extra in AMBIENT:
            with ambient_cm(kind, val, extra):
                for tt in tz_times():
                    for api in ("sync", "async"):
                        v, oc = case(seed, tt, 0, api)
                        n += 1
                        if v:
                            acc.violate("ambient." + v[0], ["ambient", kind, val, extra, tt, api], v[1], size=abs(tt) % 1000)
            acc.outcome(f"ambient:{kind}:{val}")
        acc.ev(n)
        acc.nt_counted(n)
        acc.sample({"ambient numeric settings": [list(a_) for a_ in AMBIENT], "instants": len(tz_times())})
        return
    if shard[0] == "tz":
        # the process time zone is part of the environment: the same boundary sweep in child interpreters started under other zones
        n = 0
        for tzname in TZS:
            bad = run_tz(seed, tzname)
            n += len(tz_times()) * 2
            for tt, api, key, det in bad:
                acc.violate("tz." + key, ["tz", tzname, tt, api], det, size=abs(tt) % 1000)
            acc.outcome(f"tz:{tzname}:" + ("viol" if bad else "ok"))
        acc.ev(n)
        acc.nt_counted(n)
        acc.sample({"time zones of the process": TZS, "instants": len(tz_times())})
        return
    kind = shard[0]
    if kind == "edge":
        _, ep, bk = shard
        if bk == "L0":
            base = ep * 1024 * B
        elif bk == "L1":
            base = ep * 1024 * B + (1 + ep % 31) * 32 * B
        else:
            base = ep * 1024 * B + (ep % 32) * 32 * B + (1 + ep % 31) * B
        if base - 64 < gkdi.EPOCH_FILETIME:
            base += 1024 * B if bk == "L0" else 0
        n = 0
        for off in range(-64, 65):
            for sub in (0, 99):
                for api in ("sync", "async"):
                    v, oc = case(seed, base + off, sub, api)
                    n += 1
                    acc.outcome(oc)
                    if v:
                        acc.violate(v[0], ["t", base + off, sub, api], v[1], size=abs(off))
        # the same cache again with the clock going BACKWARDS and then zig-zagging across the boundary (nothing may be remembered
        # from an earlier call); history dependent, hence replayed as a whole shard
        order = list(range(64, -65, -1)) + [x for k in range(1, 33) for x in (k, -k)]
        for off in order:
            for api in ("sync", "async"):
                v, oc = case(seed, base + off, 0, api)
                n += 1
                acc.outcome(oc)
                if v:
                    acc.violate("history." + v[0], ["shard", shard, tier], {**v[1], "offset_from_boundary": off}, size=10**5)
        acc.ev(n)
        acc.nt_counted(n)
        acc.sample({"boundary": bk, "L0": ep, "t": base - 1, "expected": gkdi.interval(base - 1)})
    elif kind == "seedkeys":
        n = 0
        for ep in (364, 400):
            cache = _seed_cache(seed, ep)
            base = (ep + 1) * 1024 * B
            pts = [base - 64 + i for i in range(0, 64)] + [ep * 1024 * B + i for i in range(0, 8)] + [ep * 1024 * B + 17 * 32 * B + i for i in range(-8, 8)]
            for tt in pts:
                for api in ("sync", "async"):
                    v, oc = case(seed, tt, 0, api, cache=cache, source="seed")
                    n += 1
                    acc.outcome("seed:" + oc)
                    if v:
                        acc.violate(v[0], ["seedt", ep, tt, api], v[1])
        acc.ev(n)
        acc.nt_counted(n)
    elif kind == "seedgrid":
        # caches primed with the envelope of various positions (incl. shapes without an L1 key: L1'=0, L2'<31) and a local clock
        # slightly behind / ahead of it
        n = 0
        ep = 364
        for P in ((31, 31), (0, 20), (0, 31), (5, 31), (5, 10), (17, 0)):
            for Q in sorted({P, (P[0], max(P[1] - 1, 0)), (P[0], min(P[1] + 1, 31)), (P[0], 0), (max(P[0] - 1, 0), 31), (min(P[0] + 1, 31), 0), (0, 0), (P[0], max(P[1] - 7, 0))}):
                for api in ("sync", "async"):
                    cache = _seed_cache(seed, ep, P)
                    tt = ep * 1024 * B + Q[0] * 32 * B + Q[1] * B + 5
                    for rep in (0, 1):
                        v, oc = case(seed, tt, 0, api, cache=cache, source="seed")
                        n += 1
                        acc.outcome("seedgrid:" + oc)
                        if v:
                            acc.violate(v[0], ["seedgrid", ep, list(P), list(Q), api, rep], v[1])
        acc.ev(n)
        acc.nt_counted(n)
        acc.sample({"cache primed with the envelope for": [ep, 0, 20], "clock at": [ep, 0, 19], "expected": "names (364,0,19) or tries the network"})
    elif kind == "afterfail":
        # a failed call leaves no trace: after an unprotect of a damaged blob (wrapped CEK / content / key identifier position damaged), every
        # protect is still served from the cache (root key, or seed keys) and names the interval of t
        rk, _, mod = _setup(seed)
        d_ = seams.Drbg(("C09af", seed))
        n = 0
        for src in ("root", "seed"):
            for ep in (364, 400):
                good = cms.ref_encrypt(rk, SID, b"y", (ep, 9, 9), cek=d_.bytes(32), gcm_nonce_=d_.bytes(12), key_nonce=d_.bytes(32))
                b_ = cms.decode(good)
                damaged = {
                    "wrapped-cek": cms.encode(b_._replace(enc_cek=bytes([b_.enc_cek[0] ^ 1]) + bytes(b_.enc_cek[1:]))),
                    "content": cms.encode(b_._replace(enc_content=bytes(b_.enc_content[:-1]) + bytes([b_.enc_content[-1] ^ 1]))),
                    "truncated": good[: len(good) // 2],
                    "key-nonce": cms.encode(b_._replace(keyid=gkdi.pack_keyid(gkdi.unpack_keyid(b_.keyid)._replace(key_info=bytes([gkdi.unpack_keyid(b_.keyid).key_info[0] ^ 1]) + bytes(gkdi.unpack_keyid(b_.keyid).key_info[1:]))))),
                }
                for dname, bad in damaged.items():
                    for api in ("sync", "async"):
                        cache = seams.make_cache(rk) if src == "root" else _seed_cache(seed, ep)
                        try:
                            with seams.clock((ep * 1024 + 9 * 32 + 9) * B + 50):
                                r_ = mod.ncrypt_unprotect_secret(bad, cache=cache) if api == "sync" else drive(mod.async_ncrypt_unprotect_secret(bad, cache=cache))
                            acc.violate("afterfail.damaged-blob-opened", ["afterfail", src, ep, dname, api, 0], {"returned": bytes(r_)[:20].hex()})
                        except Exception:  # noqa: BLE001
                            pass
                        for tt in ((ep * 1024 + 9 * 32 + 9) * B + 60, (ep * 1024 + 9 * 32 + 9) * B - 1, (ep * 1024 + 3 * 32 + 31) * B + 5):
                            v, oc = case(seed, tt, 0, api, cache=cache, source="root" if src == "root" else "seed-strict")
                            n += 1
                            acc.outcome("afterfail:" + oc)
                            if v:
                                acc.violate("afterfail." + v[0], ["afterfail", src, ep, dname, api, tt], v[1])
        acc.ev(n)
        acc.nt_counted(n)
        acc.sample({"after a failed unprotect of a damaged blob": ["wrapped-cek", "content", "truncated", "key-nonce"], "caches": ["root key", "seed keys only"]})
    elif kind == "dcskew":
        # a cache without the root key; the first protect fetches the key from a DC whose clock runs behind / ahead of the client's (within
        # the 5 minutes Kerberos tolerates); every later protect on that cache that opens no connection is "taken from the cache" and names
        # the client's interval
        import dpapi_ng

        from env import refdc, secctx, transport
        from mc import vloop

        rk, _, mod = _setup(seed)
        SEC = 10**7
        n = served = 0
        for ep in (364, 400):
            for base in (ep * 1024 * B + 7 * 32 * B + 13 * B, ep * 1024 * B + 8 * 32 * B, (ep + 1) * 1024 * B):
                for skew in (-290 * SEC, -120 * SEC, -1, 0, 1, 120 * SEC, 290 * SEC):
                    for first in (-60 * SEC, -1, 0):
                        for api in ("sync", "async"):
                            cache = dpapi_ng.KeyCache()
                            dc = refdc.DC([rk], now=gkdi.interval(base + first + skew))
                            for off in (first, -50 * SEC, -SEC, -1, 0, 1, SEC, 400 * SEC, -1, -B, B):
                                tt = base + off
                                dc.now = gkdi.interval(tt + skew)
                                cs = ["dcskew", base, skew, first, api, off]
                                with transport.network(dc) as hub, secctx.scripted_client(lambda u, p, **kw: secctx.ScriptedContext([b"C1"], 16)), seams.clock(tt):
                                    kw = dict(root_key_identifier=rk.rkid, cache=cache, server="dc", username="u", password="p", auth_protocol="ntlm")
                                    try:
                                        r = (mod.ncrypt_protect_secret if api == "sync" else mod.async_ncrypt_protect_secret)(b"x", SID, **kw)
                                        blob = r if api == "sync" else vloop.run(r)
                                    except Exception as e:  # noqa: BLE001
                                        acc.violate(f"dcskew.exc.{type(e).__name__}", cs, {"exc": repr(e)})
                                        continue
                                    rpc_used = bool(hub.attempts)
                                n += 1
                                kid = gkdi.unpack_keyid(cms.decode(bytes(blob)).keyid)
                                got = (kid.l0, kid.l1, kid.l2)
                                if rpc_used:
                                    acc.outcome("dcskew:from-dc")
                                    continue
                                served += 1
                                acc.outcome("dcskew:from-cache")
                                if got != gkdi.interval(tt):
                                    acc.violate("dcskew.interval", cs, {"named": got, "expected": gkdi.interval(tt), "dc_clock_minus_client_ticks": skew, "history_offsets": "first call at %d, then -50 s, -1 s, -1, 0, +1, +1 s, +400 s, -1, -1 interval, +1 interval" % first})
                                elif cms.ref_decrypt(rk, bytes(blob)) != b"x":
                                    acc.violate("dcskew.refdecrypt", cs, {})
        acc.ev(n)
        acc.nt_counted(served)
        acc.states += n
        acc.transitions += n
        acc.sample({"DC clock minus client clock (ticks)": [-290 * SEC, -120 * SEC, -1, 0, 1, 120 * SEC, 290 * SEC], "protects served from the cache": served, "of": n})
    elif kind == "ticking":
        # the clock moves while the call runs: every read returns a later instant; the blob must name the interval of SOME instant
        # between the first and the last read (never a mixture of fields taken from different instants)
        rk, cache, mod = _setup(seed)
        n = 0
        for ep in (364, 511):
            for base in (ep * 1024 * B, ep * 1024 * B + 7 * 32 * B, ep * 1024 * B + 7 * 32 * B + 9 * B):
                for start in range(-6, 3):
                    for step in (1, 2, 3):
                        for api in ("sync", "async"):
                            with seams.ticking_clock(base + start, step) as reads:
                                try:
                                    f = mod.ncrypt_protect_secret if api == "sync" else mod.async_ncrypt_protect_secret
                                    r = f(b"x", SID, root_key_identifier=rk.rkid, cache=cache)
                                    blob = r if api == "sync" else drive(r)
                                except Exception as e:  # noqa: BLE001
                                    acc.violate(f"ticking.exc.{type(e).__name__}", ["ticking", base, start, step, api], {"exc": repr(e)})
                                    continue
                            n += 1
                            kid = gkdi.unpack_keyid(cms.decode(bytes(blob)).keyid)
                            got = (kid.l0, kid.l1, kid.l2)
                            lo, hi = (reads[0], reads[-1]) if reads else (base + start, base + start)
                            ok = {gkdi.interval(x) for x in (lo, hi)} | ({gkdi.interval(base)} if lo <= base <= hi else set())
                            if reads and got not in ok:
                                acc.violate("ticking.interval", ["ticking", base, start, step, api], {"named": got, "clock_reads": len(reads), "first_read": gkdi.interval(lo), "last_read": gkdi.interval(hi)})
                            acc.outcome("ticking:" + ("ok" if got in ok else "viol") if reads else "ticking:clock-not-read")
        acc.ev(n)
        acc.nt_counted(n)
        acc.sample({"advancing clock": "starts -6..+2 ticks around L0/L1/L2 boundaries, +1..3 ticks per read"})
    elif kind == "walk":
        # one cache, the clock walks over many consecutive intervals (and jumps by whole L1 / L0 periods): nothing derived for an
        # earlier interval may be reused for another one
        rk, _, mod = _setup(seed)
        cache = seams.make_cache(rk)
        n = 0
        t0 = 363 * 1024 * B + 2 * 32 * B + 20 * B + 1234
        if shard[1] == 0:
            times = [t0 + k * B + d for k in range(0, 140) for d in (0, B // 2)]
        elif shard[1] in (2, 3):
            # ALL 1024 (L1, L2) positions of one L0 in one process: in ascending order, then ordered by (L2, L1) - any two positions
            # whose indexes could be confused (digit strings, packed integers, swapped order) meet each other in both orders
            pos = [(a_, b_) for a_ in range(32) for b_ in range(32)]
            if shard[1] == 3:
                pos = sorted(pos, key=lambda p_: (p_[1], -p_[0]))
            times = [364 * 1024 * B + a_ * 32 * B + b_ * B + 77 for a_, b_ in pos]
        else:
            times = []
            for k in range(0, 6):
                times += [t0 + k * 1024 * B, t0 + k * 32 * B, t0 + k * 1024 * B + 5 * B, t0 + k * 33 * B, t0 + k * 31 * B]
            times = times + times[::-1]
        for tt in times:
            for api in ("sync",) if shard[1] in (0, 2, 3) else ("sync", "async"):
                v, oc = case(seed, tt, 0, api, cache=cache)
                n += 1
                acc.outcome("walk:" + oc)
                if v:
                    acc.violate("walk." + v[0], ["shard", shard, tier], {**v[1]}, size=10**5)
        acc.ev(n)
        acc.nt_counted(n)
        acc.sample({"walk": "140 consecutive L2 intervals on one cache" if shard[1] == 0 else "jumps by whole L0 / L1 periods (same L1,L2 in another L0) forth and back"})
    elif kind == "real":
        now = time.time_ns() // 100 + gkdi.EPOCH_FILETIME
        rk, cache, mod = _setup(seed)
        blob = mod.ncrypt_protect_secret(b"x", SID, root_key_identifier=rk.rkid, cache=cache)
        after = time.time_ns() // 100 + gkdi.EPOCH_FILETIME
        kid = gkdi.unpack_keyid(cms.decode(bytes(blob)).keyid)
        got = (kid.l0, kid.l1, kid.l2)
        if got not in (gkdi.interval(now), gkdi.interval(after)):
            acc.violate("interval.realclock", ["real"], {"named": got, "now": now})
        acc.ev()
        acc.nt_counted()
        acc.outcome("ok-realclock")
    elif kind == "allL2":
        _, lo, hi = shard
        n = 0
        for k in range(lo, hi):
            for off in (-1, 0):
                tt = k * B + off
                v, oc = case(seed, tt, 0, "sync")
                n += 1
                acc.outcome(oc)
                if v:
                    acc.violate(v[0], ["t", tt, 0, "sync"], v[1], size=1000)
        acc.ev(n)
        acc.nt_counted(n)
    else:
        raise AssertionError(shard)


def replay(case_, seed, acc) -> None:
    if case_[0] == "ambient":
        worker_init()
        acc.ev()
        with ambient_cm(case_[1], case_[2], case_[3]):
            v, _ = case(seed, case_[4], 0, case_[5])
        if v:
            acc.violate("ambient." + v[0], case_, v[1])
        return
    if case_[0] == "tz":
        acc.ev()
        for tt, api, key, det in run_tz(seed, case_[1]):
            if tt == case_[2] and api == case_[3]:
                acc.violate("tz." + key, case_, det)
        return
    seams.block_network()
    if case_[0] == "t":
        v, oc = case(seed, int(case_[1]), int(case_[2]), case_[3])
    elif case_[0] == "seedgrid":
        _, ep, P, Q, api, rep = case_
        cache = _seed_cache(seed, ep, tuple(P))
        tt = ep * 1024 * B + Q[0] * 32 * B + Q[1] * B + 5
        v, oc = None, ""
        for _ in range(rep + 1):
            v, oc = case(seed, tt, 0, api, cache=cache, source="seed")
    elif case_[0] == "seedt":
        v, oc = case(seed, int(case_[2]), 0, case_[3], cache=_seed_cache(seed, int(case_[1])), source="seed")
    elif case_[0] in ("ticking", "dcskew", "afterfail"):
        run_shard([case_[0]], "quick", seed, acc)
        for k in list(acc.violations):
            acc.violations[k] = [e for e in acc.violations[k] if e["case"] == case_]
            if not acc.violations[k]:
                del acc.violations[k]
        acc.violation_count = sum(len(x) for x in acc.violations.values())
        return
    else:
        raise AssertionError(case_)
    acc.ev()
    if v:
        acc.violate(v[0], case_, v[1])


def calibrate() -> None:
    from mc.runner import HarnessError

    try:
        cms.calibrate()
    except AssertionError as e:
        raise HarnessError(f"reference model calibration failed: {e!r}") from e
    assert gkdi.interval(369444 * B + 5) == (360, 25, 4)  # 369444 = 360*1024 + 25*32 + 4
