"""C12 — DCE/RPC and endpoint-mapper wire codecs are inverse; decoders terminate."""
from __future__ import annotations

import dataclasses
import itertools
import struct
import tracemalloc
import typing as t
import uuid

from mc import budget
from ref import dcerpc as rpc
from ref import epm as repm

ID = "C12"
LEVEL = "model_checking"
RULE = (
    "well-formed part: complete products per message type (bind/alter_context: 0..8 contexts x 0..4 transfer syntaxes x trailer {none,1,16,64}; bind_ack/alter_context_resp: "
    "secondary address length 0..9 x 0..6 results x trailer; bind_nak 0..4 versions; request/response/fault: stub 0..40 x object UUID x trailer; security trailer: all "
    "provider x level members x pad 0..15; verification trailer: every command list of length 1..3 over {bitmask,pcontext,header2,unknown} x MUST_PROCESS; floors: known shapes "
    "and unknown protocols with lhs/rhs 0..9; towers 0..6 floors; ept_map x {obj,handle}; ept_map result 0..3 towers with independent length residues mod 8 x handle x status). "
    "All ordered pairs and triples of 28 representative messages of all kinds are decoded in one process (state must not leak between codecs; unknown command types and unknown floor protocols share values). Oracle: pack() == independent reference encoding, unpack(pack(x)) field-wise == x on constructor fields, re-pack identical. termination part: every prefix, every count/length "
    "field substituted by {0,1,0x7f,0xff,0xffff,2^32-1,2^64-1}, END flag cleared (+0/4/64KiB of zeros or END-less commands), all strings <=2 bytes, for every decoder entry point, "
    "each under a step budget of 50000+100*len dpapi_ng line events and an allocation budget of 1MiB+64*len. state = one (decoder, input) execution; transition = decoder step batches "
    "are not counted, transitions = executions of the decoder under budget. Non-trivial = decoder entered with non-empty input; distinct by (entry point, bytes)."
    ' bind / alter_context also with 1..4 contexts that offer DIFFERENT numbers (0..3) of transfer syntaxes (all 340 non-uniform shapes).'
    ' Also the same tower listed several times (same object / equal copy) and messages that are packed, changed in place and packed again.'
)
ASSUME = ["ref/dcerpc.py and ref/epm.py calibrated on the PDUs captured in tests/_rpc and tests/test_epm.py", "field-wise equality on dataclass constructor fields (decoded known floors/commands additionally cache raw bytes)"]
BOUND = {"quick": "products as listed; prefixes of one encoding per message shape", "thorough": "same products, prefixes of every generated encoding up to 300 bytes"}

U1 = uuid.UUID("e1af8308-5d1f-11c9-91a4-08002b14a0fa")
U2 = uuid.UUID("12345678-1234-5678-9abc-def012345678")


def M():
    import dpapi_ng._epm as E
    import dpapi_ng._gkdi as G
    import dpapi_ng._rpc as R

    return R, E, G


def fw_eq(a: t.Any, b: t.Any) -> bool:
    if dataclasses.is_dataclass(a) and dataclasses.is_dataclass(b):
        if type(a) is not type(b):
            return False
        return all(fw_eq(getattr(a, f.name), getattr(b, f.name)) for f in dataclasses.fields(a) if f.init)
    if isinstance(a, (list, tuple)) and isinstance(b, (list, tuple)):
        return len(a) == len(b) and all(fw_eq(x, y) for x, y in zip(a, b))
    return a == b


def syn(R, s: rpc.Syntax):
    return R.SyntaxId(s[0], s[1], s[2])


def hdr(R, ptype: int, flags: int, frag_len: int, auth_len: int, call_id: int = 7):
    return R.PDUHeader(version=5, version_minor=0, packet_type=R.PacketType(ptype), packet_flags=R.PacketFlags(flags), data_rep=R.DataRep(), frag_len=frag_len, auth_len=auth_len, call_id=call_id)


def trailer_pair(R, tlen: t.Optional[int]):
    if tlen is None:
        return None, None
    tok = bytes((i * 13 + 1) & 0xFF for i in range(tlen))
    return R.SecTrailer(type=R.SecurityProvider.RPC_C_AUTHN_WINNT, level=R.AuthenticationLevel.RPC_C_AUTHN_LEVEL_PKT_PRIVACY, pad_length=0, context_id=0, auth_value=tok), dict(type=10, level=6, pad=0, ctx=0, token=tok)


TRAILERS = [None, 1, 16, 64]
SYNS = [rpc.NDR64, rpc.NDR, rpc.EPM, rpc.ISD_KEY]


def gen_wellformed(kind: str) -> t.Iterator[t.Tuple[t.Any, t.Callable[[], t.Any], bytes, t.Callable[[bytes], t.Any]]]:
    """yields (case descriptor, make-object thunk, reference bytes, unpack function)"""
    R, E, G = M()
    if kind in ("bind", "alter_context"):
        pt = rpc.BIND if kind == "bind" else rpc.ALTER_CONTEXT
        cls = R.Bind if kind == "bind" else R.AlterContext
        for nctx in range(0, 9):
            for ntr in range(0, 5):
                for tl in TRAILERS:
                    # transfer syntaxes of one context share a UUID and differ in the (minor) version; abstract syntaxes reuse UUIDs with other versions
                    ctxs = [(100 * i + 1, (SYNS[i % 4][0], 1 + i // 4, i), tuple((SYNS[(i + j) % 4][0] if j % 2 else SYNS[i % 4][0], 1 + j // 2, j) for j in range(ntr))) for i in range(nctx)]
                    tr_obj, tr_ref = trailer_pair(R, tl)
                    ref = rpc.enc_bind_like(pt, 3, 7, ctxs, tr_ref, 4280, 5840, 0xA1B2C3)

                    def mk(ctxs=ctxs, tr_obj=tr_obj, ref=ref, tl=tl):
                        return cls(header=hdr(R, pt, 3, len(ref), tl or 0), sec_trailer=tr_obj, max_xmit_frag=4280, max_recv_frag=5840, assoc_group=0xA1B2C3,
                                   contexts=[R.ContextElement(context_id=c, abstract_syntax=syn(R, a), transfer_syntaxes=[syn(R, x) for x in ts]) for c, a, ts in ctxs])

                    yield [kind, nctx, ntr, tl], mk, ref, R._pdu.PDU.unpack
        # contexts that offer DIFFERENT numbers of transfer syntaxes: every shape of 1..4 contexts with 0..3 syntaxes each (elements of unequal size)
        import itertools as _it

        for nctx in range(1, 5):
            for counts in _it.product(range(4), repeat=nctx):
                if len(set(counts)) == 1:
                    continue
                for tl in (None, 16):
                    ctxs = [(100 * i + 1, (SYNS[i % 4][0], 1 + i // 4, i), tuple((SYNS[(i + j) % 4][0] if j % 2 else SYNS[i % 4][0], 1 + j // 2, j) for j in range(counts[i]))) for i in range(nctx)]
                    tr_obj, tr_ref = trailer_pair(R, tl)
                    ref = rpc.enc_bind_like(pt, 3, 7, ctxs, tr_ref, 4280, 5840, 0xA1B2C3)

                    def mk2(ctxs=ctxs, tr_obj=tr_obj, ref=ref, tl=tl):
                        return cls(header=hdr(R, pt, 3, len(ref), tl or 0), sec_trailer=tr_obj, max_xmit_frag=4280, max_recv_frag=5840, assoc_group=0xA1B2C3,
                                   contexts=[R.ContextElement(context_id=c, abstract_syntax=syn(R, a), transfer_syntaxes=[syn(R, x) for x in ts]) for c, a, ts in ctxs])

                    yield [kind, "shape", list(counts), tl], mk2, ref, R._pdu.PDU.unpack
    elif kind in ("bind_ack", "alter_context_resp"):
        pt = rpc.BIND_ACK if kind == "bind_ack" else rpc.ALTER_CONTEXT_RESP
        cls = R.BindAck if kind == "bind_ack" else R.AlterContextResponse
        NONASCII = ["\u00e9", "p\u00e9", "49\u00e9", "\u20ac1", "\U0001d521", "\\pipe\\donn\u00e9es"]  # UTF-8 lengths 2, 3, 4, 4, 4, 14: every residue mod 4
        for alen in range(0, 10 + len(NONASCII)):
            for nres in range(0, 7):
                for tl in TRAILERS:
                    addr = "4966400000"[:alen] if alen < 10 else NONASCII[alen - 10]
                    res = [((i * 3) % 4, i, (SYNS[i % 4][0], 1 + i, 0)) for i in range(nres)]
                    tr_obj, tr_ref = trailer_pair(R, tl)
                    ref = rpc.enc_ack_like(pt, 7, 7, res, tr_ref, (addr.encode() + b"\x00") if addr else b"", 5840, 4280, 0x4D2)

                    def mk(addr=addr, res=res, tr_obj=tr_obj, ref=ref, tl=tl):
                        return cls(header=hdr(R, pt, 7, len(ref), tl or 0), sec_trailer=tr_obj, max_xmit_frag=5840, max_recv_frag=4280, assoc_group=0x4D2, sec_addr=addr,
                                   results=[R.ContextResult(result=R.ContextResultCode(r), reason=rs, syntax=s[0], syntax_version=s[1]) for r, rs, s in res])

                    yield [kind, alen, nres, tl], mk, ref, R._pdu.PDU.unpack
    elif kind == "bind_nak":
        for nv in range(0, 5):
            for reason in (0, 4, 0xFFFF):
                vers = [(5, i) for i in range(nv)]
                ref = rpc.enc_bind_nak(7, reason, vers)

                def mk(vers=vers, reason=reason, ref=ref):
                    return R.BindNak(header=hdr(R, rpc.BIND_NAK, 3, len(ref), 0), sec_trailer=None, reject_reason=reason, versions=list(vers))

                yield [kind, nv, reason], mk, ref, R._pdu.PDU.unpack
    elif kind in ("request", "response", "fault"):
        # (stub length, trailer token length): small ones in full, then fragments whose 16-bit frag_length / auth_length has the top bit set or is maximal
        sizes = [(sl, tl_) for sl in range(0, 41) for tl_ in TRAILERS]
        sizes += [(32743, None), (32744, None), (32745, None), (32720, 16), (40000, None), (40000, 16), (65511 - (8 if kind == "fault" else 0), None), (0, 32767), (0, 32768), (8, 40000), (0, 65503 - (8 if kind == "fault" else 0))]
        for slen, tl in sizes:
            for obj in ((None, U2, uuid.UUID(int=0)) if kind == "request" and slen < 65000 and (tl or 0) < 65000 else (None,)):
                for _once in (0,):
                    stub = bytes((i * 5 + 2) & 0xFF for i in range(slen))
                    tr_obj, tr_ref = trailer_pair(R, tl)
                    if kind == "request":
                        ref = rpc.enc_request(7, 2, 0x1234, stub, tr_ref, obj, 3, 1000 + slen)

                        def mk(stub=stub, obj=obj, tr_obj=tr_obj, ref=ref, tl=tl, slen=slen):
                            return R.Request(header=hdr(R, 0, 3 | (0x80 if obj else 0), len(ref), tl or 0), sec_trailer=tr_obj, alloc_hint=1000 + slen, context_id=2, opnum=0x1234, obj=obj, stub_data=stub)

                    elif kind == "response":
                        hint = [1000 + slen, 0, slen, max(slen - 3, 0)][slen % 4]  # alloc_hint is only a hint: larger, absent (0), exact, smaller

                        ref = rpc.enc_response(7, 2, stub, tr_ref, 3, 5, hint)

                        def mk(stub=stub, tr_obj=tr_obj, ref=ref, tl=tl, hint=hint):
                            return R.Response(header=hdr(R, 2, 3, len(ref), tl or 0), sec_trailer=tr_obj, alloc_hint=hint, context_id=2, cancel_count=5, stub_data=stub)

                    else:
                        ref = rpc.enc_fault(7, 2, 0x1C010003, stub, tr_ref, 3, 1, 1, 1000 + slen)

                        def mk(stub=stub, tr_obj=tr_obj, ref=ref, tl=tl, slen=slen):
                            return R.Fault(header=hdr(R, 3, 3, len(ref), tl or 0), sec_trailer=tr_obj, alloc_hint=1000 + slen, context_id=2, cancel_count=1, status=0x1C010003, flags=R.FaultFlags(1), stub_data=stub)

                    yield [kind, slen, ("nil" if obj is not None and obj.int == 0 else bool(obj)), tl], mk, ref, R._pdu.PDU.unpack
    elif kind == "sectrailer":
        for prov in R.SecurityProvider:
            for lvl in R.AuthenticationLevel:
                for pad in range(16):
                    for tl in (0, 1, 16):
                        tok = b"\xab" * tl
                        ref = rpc.sec_trailer(int(prov), int(lvl), pad, 0x01020304, tok)

                        def mk(prov=prov, lvl=lvl, pad=pad, tok=tok):
                            return R.SecTrailer(type=prov, level=lvl, pad_length=pad, context_id=0x01020304, auth_value=tok)

                        yield [kind, int(prov), int(lvl), pad, tl], mk, ref, R.SecTrailer.unpack
    elif kind == "vt":
        def cmds(code: str, fl: int):
            if code == "b":
                return R.CommandBitmask(flags=R.CommandFlags(fl), bits=1), (1, fl, struct.pack("<I", 1))
            if code == "p":
                iface = (rpc.ISD_KEY[0], 1, fl >> 15)  # same UUID, minor version varies with the command flags
                trans = (rpc.NDR64[0], 1, 1 - (fl >> 15))
                return R.CommandPContext(flags=R.CommandFlags(fl), interface_id=syn(R, iface), transfer_syntax=syn(R, trans)), (2, fl, rpc.syntax_bytes(iface) + rpc.syntax_bytes(trans))
            if code == "h":
                v = struct.pack("<B3x4sIHH", 0, rpc.DREP, 9, 1, 0)
                return R.CommandHeader2(flags=R.CommandFlags(fl), packet_type=R.PacketType(0), data_rep=R.DataRep(), call_id=9, context_id=1, opnum=0), (3, fl, v)
            unk = 0x55 if not fl & rpc.VT_MUST else 0x0C  # unknown command types that coincide with unknown floor protocol ids used below
            val = b"" if code == "z" else b"\x01\x02\x03"  # z: an unknown command whose value is empty (legal: length 0)
            return R.Command(command=R.CommandType(unk), flags=R.CommandFlags(fl), value=val), (unk, fl, val)

        for k in (1, 2, 3):
            for codes in itertools.product("bphuz", repeat=k):
                for musts in itertools.product((0, rpc.VT_MUST), repeat=k):
                    pairs = [cmds(c, m | (rpc.VT_END if i == k - 1 else 0)) for i, (c, m) in enumerate(zip(codes, musts))]
                    ref = rpc.enc_vt([p[1] for p in pairs])

                    def mk(pairs=pairs):
                        return R.VerificationTrailer([p[0] for p in pairs])

                    yield [kind, "".join(codes), list(musts)], mk, ref, R.VerificationTrailer.unpack
    elif kind == "floor":
        known = [
            (lambda: E.TCPFloor(port=49664), repm.tcp_floor(49664)),
            (lambda: E.TCPFloor(port=0), repm.tcp_floor(0)),
            (lambda: E.IPFloor(addr=0xC0A80001), repm.ip_floor(0xC0A80001)),
            (lambda: E.RPCConnectionOrientedFloor(version_minor=3), repm.rpc_co_floor(3)),
            (lambda: E.UUIDFloor(uuid=U1, version=3, version_minor=1), repm.uuid_floor((U1, 3, 1))),
        ]
        for i, (mkf, rf) in enumerate(known):
            yield [kind, "known", i], mkf, repm.floor_bytes(rf), E.Floor.unpack
        for proto in (0x55, 0x0C, 0x00, 0x08, 0x10, 0x1F, 0xFF):
            for ll in range(10):
                for rl in range(10):
                    lhs, rhs = bytes(range(ll)), bytes(range(100, 100 + rl))

                    def mk(proto=proto, lhs=lhs, rhs=rhs):
                        return E.Floor(protocol=E.FloorProtocol(proto), lhs=lhs, rhs=rhs)

                    yield [kind, proto, ll, rl], mk, repm.floor_bytes((proto, lhs, rhs)), E.Floor.unpack
    elif kind == "ept_map":
        for nfl in range(0, 7):
            for extra in range(8):
                for obj in (None, U2):
                    for handle in (None, (7, U1)):
                        floors_ref = [repm.uuid_floor(rpc.ISD_KEY), repm.tcp_floor(135), repm.ip_floor(0), repm.rpc_co_floor(0), (0x55, b"", b""), (0x1F, b"a", b"bc")][:nfl]
                        if nfl:
                            floors_ref = floors_ref[:-1] + [(0x56, b"", bytes(extra))]
                        hb = b"\x00" * 20 if handle is None else struct.pack("<I", handle[0]) + handle[1].bytes_le
                        ref = repm.ept_map_request(obj, floors_ref, hb, 4)

                        def mk(floors_ref=floors_ref, obj=obj, handle=handle):
                            return E.EptMap(obj=obj, tower=[mk_floor(E, f) for f in floors_ref], entry_handle=handle, max_towers=4)

                        yield [kind, nfl, extra, bool(obj), bool(handle)], mk, ref, E.EptMap.unpack
    elif kind == "ept_map_result":
        for nt in range(0, 4):
            for residues in itertools.product(range(8), repeat=nt):
                for handle in (None, (7, U1)):
                    for status in (0, 0x16C9A0D6):
                        towers_ref = []
                        for i, r in enumerate(residues):
                            base = [repm.uuid_floor(rpc.ISD_KEY), repm.tcp_floor(49664 + i), repm.ip_floor(i)]
                            ln = len(repm.tower_octets(base)) + 5
                            towers_ref.append(base + [(0x55, b"", bytes((r - ln) % 8))])
                            assert len(repm.tower_octets(towers_ref[-1])) % 8 == r
                        hb = b"\x00" * 20 if handle is None else struct.pack("<I", handle[0]) + handle[1].bytes_le
                        ref = repm.ept_map_response(towers_ref, status, hb)

                        def mk(towers_ref=towers_ref, handle=handle, status=status):
                            return E.EptMapResult(entry_handle=handle, towers=[[mk_floor(E, f) for f in tw] for tw in towers_ref], status=status)

                        yield [kind, list(residues), bool(handle), status], mk, ref, E.EptMapResult.unpack
        # the SAME tower listed several times (an endpoint registered twice; the same object or an equal copy), the same floor repeated inside
        # a tower, towers in the reverse order: a list is a list
        tA = [repm.uuid_floor(rpc.ISD_KEY), repm.tcp_floor(49664), repm.ip_floor(0)]
        tB = [repm.uuid_floor(rpc.ISD_KEY), repm.tcp_floor(49665), repm.ip_floor(1), repm.tcp_floor(49665), repm.tcp_floor(49665)]
        for li, lst in enumerate([[tA, tA], [tA, tB, tA], [tA, tA, tA, tA], [tB, tB], [tB, tA, tB, tA]]):
            for same_object in (True, False):
                ref = repm.ept_map_response(lst, 0, b"\x00" * 20)

                def mk3(lst=lst, same_object=same_object):
                    built: t.Dict[int, t.Any] = {}
                    towers = []
                    for tw in lst:
                        if same_object and id(tw) in built:
                            towers.append(built[id(tw)])
                        else:
                            built[id(tw)] = [mk_floor(E, f) for f in tw]
                            towers.append(built[id(tw)])
                    return E.EptMapResult(entry_handle=None, towers=towers, status=0)

                yield [kind, "dup", li, same_object], mk3, ref, E.EptMapResult.unpack
    else:
        raise AssertionError(kind)


def mk_floor(E, f: repm.Floor):
    proto, lhs, rhs = f
    if proto == repm.P_TCP:
        return E.TCPFloor(port=int.from_bytes(rhs, "big"))
    if proto == repm.P_IP:
        return E.IPFloor(addr=int.from_bytes(rhs, "big"))
    if proto == repm.P_RPC_CO:
        return E.RPCConnectionOrientedFloor(version_minor=int.from_bytes(rhs, "little"))
    if proto == repm.P_UUID:
        return E.UUIDFloor(uuid=uuid.UUID(bytes_le=lhs[:16]), version=int.from_bytes(lhs[16:18], "little"), version_minor=int.from_bytes(rhs, "little"))
    return E.Floor(protocol=E.FloorProtocol(proto), lhs=lhs, rhs=rhs)


WF_KINDS = ["bind", "alter_context", "bind_ack", "alter_context_resp", "bind_nak", "request", "response", "fault", "sectrailer", "vt", "floor", "ept_map", "ept_map_result"]


def limit_for(n: int) -> int:
    return 50000 + 100 * n


def case_wellformed(desc, mk, ref: bytes, unpack):
    try:
        obj = mk()
        packed = bytes(obj.pack())
    except Exception as e:  # noqa: BLE001
        return f"pack.exc.{type(e).__name__}:{desc[0]}", {"exc": repr(e)}
    if packed != ref:
        return f"pack.bytes:{desc[0]}", {"got": packed.hex()[:400], "ref": ref.hex()[:400], "first_diff": next((i for i, (x, y) in enumerate(zip(packed, ref)) if x != y), min(len(packed), len(ref))), "lens": [len(packed), len(ref)]}
    st, val, steps, _ = budget.outcome(limit_for(len(ref)), unpack, ref)
    if st == "budget":
        return f"unpack.no-termination:{desc[0]}", {"bytes": ref.hex()[:400]}
    if st == "exc":
        return f"unpack.exc.{type(val).__name__}:{desc[0]}", {"exc": repr(val), "bytes": ref.hex()[:400]}
    if not fw_eq(val, obj):
        return f"unpack.fields:{desc[0]}", {"decoded": repr(val)[:500], "original": repr(obj)[:500]}
    try:
        again = bytes(val.pack())
    except Exception as e:  # noqa: BLE001
        return f"repack.exc.{type(e).__name__}:{desc[0]}", {"exc": repr(e)}
    if again != ref:
        return f"repack.bytes:{desc[0]}", {"got": again.hex()[:400], "ref": ref.hex()[:400]}
    if len(ref) <= 4096:
        # decoded from a receive buffer the caller goes on using (bytearray, memoryview of one): the decoded message is a value of its own -
        # it does not change when the buffer is overwritten, and it does not pin the buffer (the caller can resize it)
        for form in ("bytearray", "memoryview"):
            buf = bytearray(ref)
            try:
                v2 = unpack(buf if form == "bytearray" else memoryview(buf))
                for i_ in range(len(buf)):
                    buf[i_] = 0xA5
                del buf[:]
                after = bytes(v2.pack())
            except Exception as e:  # noqa: BLE001
                return f"buffer-reuse.exc.{type(e).__name__}:{desc[0]}", {"exc": repr(e), "form": form}
            if after != ref:
                return f"buffer-reuse.aliased:{desc[0]}", {"form": form, "first_diff": next((i for i, (x, y) in enumerate(zip(after, ref)) if x != y), min(len(after), len(ref)))}
    return None


# -- termination ---------------------------------------------------------------------------------


def entry_points():
    R, E, G = M()
    return {
        "PDU": R._pdu.PDU.unpack,
        "SecTrailer": R.SecTrailer.unpack,
        "VerificationTrailer": R.VerificationTrailer.unpack,
        "Command": R.Command.unpack,
        "Floor": E.Floor.unpack,
        "EptMap": E.EptMap.unpack,
        "EptMapResult": E.EptMapResult.unpack,
        "GetKey.unpack": G.GetKey.unpack,
        "GetKey.unpack_response": G.GetKey.unpack_response,
    }


KIND_EP = {"bind": "PDU", "alter_context": "PDU", "bind_ack": "PDU", "alter_context_resp": "PDU", "bind_nak": "PDU", "request": "PDU", "response": "PDU", "fault": "PDU",
           "sectrailer": "SecTrailer", "vt": "VerificationTrailer", "floor": "Floor", "ept_map": "EptMap", "ept_map_result": "EptMapResult"}

SUBST = [0, 1, 0x7F, 0xFF, 0xFFFF, 2**32 - 1, 2**64 - 1]


def case_term(ep_name: str, fn, data: bytes, mem: bool = False):
    lim = limit_for(len(data))
    if mem:
        tracemalloc.start()
    st, val, steps, _ = budget.outcome(lim, fn, data)
    peak = 0
    if mem:
        peak = tracemalloc.get_traced_memory()[1]
        tracemalloc.stop()
    if st == "budget":
        return f"term.steps:{ep_name}", {"len": len(data), "limit": lim, "bytes": data[:120].hex()}, steps, peak
    if mem and peak > (1 << 20) + 64 * len(data):
        return f"term.memory:{ep_name}", {"len": len(data), "peak": peak, "bytes": data[:120].hex()}, steps, peak
    return None, None, steps, peak


def field_sites(kind: str, ref: bytes) -> t.List[t.Tuple[int, int]]:
    """(offset, width) of count/length fields worth substituting in a well-formed encoding of `kind`"""
    if KIND_EP[kind] == "PDU":
        sites = [(8, 2), (10, 2)]
        if kind in ("bind", "alter_context"):
            sites += [(24, 1), (24, 4), (30, 1), (30, 2)]
        elif kind in ("bind_ack", "alter_context_resp"):
            sites += [(24, 2)]
            sl = struct.unpack("<H", ref[24:26])[0]
            p = 26 + sl
            p += -p % 4
            sites += [(p, 1), (p, 4)]
        elif kind == "bind_nak":
            sites += [(18, 1)]
        else:
            sites += [(16, 4)]
        return sites
    if kind == "vt":
        return [(8, 2), (10, 2)]
    if kind == "floor":
        return [(0, 2)]
    if kind == "ept_map":
        return [(32, 8), (40, 4), (44, 2), (46, 2)]
    if kind == "ept_map_result":
        return [(20, 4), (24, 8), (40, 8), (48, 8)] + ([(56, 8), (64, 4), (68, 2), (70, 2)] if len(ref) > 72 else [])
    return []


def shards(tier: str, seed: int):
    out = [["wf", k] for k in WF_KINDS]
    out += [["prefix", k] for k in WF_KINDS]
    out += [["subst", k] for k in WF_KINDS]
    out += [["noend"], ["gk"], ["manyunknown"], ["mutate-repack"]]
    out += [["mixed", part] for part in range(4)]
    out += [["short", name] for name in ("PDU", "SecTrailer", "VerificationTrailer", "Command", "Floor", "EptMap", "EptMapResult", "GetKey.unpack", "GetKey.unpack_response")]
    return out


def run_shard(shard, tier, seed, acc) -> None:
    what = shard[0]
    eps = entry_points()
    if what == "wf":
        n = 0
        for desc, mk, ref, unpack in gen_wellformed(shard[1]):
            res = case_wellformed(desc, mk, ref, unpack)
            n += 1
            acc.nt(("wf", shard[1], ref))
            if res:
                acc.violate(res[0], ["wf", desc], res[1], size=len(ref))
                acc.outcome("wf-violation")
            else:
                acc.outcome("wf-roundtrip-ok")
            acc.stat_max("lines_wellformed_unpack", budget.last_steps())
        acc.ev(n)
        acc.states += n
        acc.transitions += n
        acc.sample({"wellformed": desc, "bytes": ref.hex()[:160]})
    elif what == "prefix":
        kind = shard[1]
        fn = eps[KIND_EP[kind]]
        n = 0
        seen_len = set()
        for desc, mk, ref, unpack in gen_wellformed(kind):
            if tier == "quick":
                if len(ref) in seen_len or len(seen_len) > 40:
                    continue
            elif len(ref) > 300 or (len(ref) in seen_len and n > 20000):
                continue
            seen_len.add(len(ref))
            for cut in range(0, len(ref)):
                if acc.too_many():
                    break
                v, det, steps, _ = case_term(KIND_EP[kind], fn, ref[:cut])
                n += 1
                acc.stat_max("lines_malformed", steps)
                if v:
                    acc.violate(v, ["prefix", kind, desc, cut], det, size=cut)
        acc.ev(n)
        acc.nt_counted(n)
        acc.states += n
        acc.transitions += n
        acc.outcome("prefix-terminated", n)
    elif what == "subst":
        kind = shard[1]
        fn = eps[KIND_EP[kind]]
        n = 0
        picked = 0
        for desc, mk, ref, unpack in gen_wellformed(kind):
            picked += 1
            if picked % (7 if tier == "quick" else 2) != 1:
                continue
            for off, width in field_sites(kind, ref):
                if off + width > len(ref):
                    continue
                for sv in SUBST:
                    if acc.too_many():
                        break
                    val = sv & ((1 << (8 * width)) - 1)
                    data = ref[:off] + val.to_bytes(width, "little") + ref[off + width :]
                    v, det, steps, peak = case_term(KIND_EP[kind], fn, data, mem=True)
                    n += 1
                    acc.stat_max("lines_malformed", steps)
                    acc.stat_max("peak_alloc_malformed", peak)
                    if v:
                        acc.violate(v, ["subst", kind, desc, off, width, sv], det, size=len(data))
        acc.ev(n)
        acc.nt_counted(n)
        acc.states += n
        acc.transitions += n
        acc.outcome("subst-terminated", n)
    elif what == "noend":
        R, E, G = M()
        n = 0
        base_cmds = [(1, 0, struct.pack("<I", 1)), (2, 0, rpc.syntax_bytes(rpc.ISD_KEY) + rpc.syntax_bytes(rpc.NDR64)), (0x55, 0, b"")]
        for k in (1, 2, 3):
            for cmds in itertools.product(base_cmds, repeat=k):
                head = rpc.enc_vt(list(cmds))  # no END anywhere
                for tail in (b"", b"\x00" * 4, b"\x00" * (65536 if k == 1 else 2048), (struct.pack("<HH", 0x55, 0)) * (1000 if k == 1 else 100), b"\xff" * 64, head * (4096 if k == 1 else 300), (b"\x00" * 4 + head) * (1024 if k == 1 else 100), (struct.pack("<HH", 0x55, 8) + head[:8]) * (4096 if k == 1 else 300)):  # ... and commands whose VALUE is the trailer signature;  # last two: the END-less trailer itself repeated (work must stay linear in the input)
                    if acc.too_many():
                        break
                    data = head + tail
                    for name in ("VerificationTrailer",):
                        v, det, steps, peak = case_term(name, eps[name], data, mem=True)
                        n += 1
                        acc.stat_max("lines_malformed", steps)
                        acc.stat_max("peak_alloc_malformed", peak)
                        if v:
                            acc.violate(v, ["noend", [c[0] for c in cmds], len(tail), tail[:4].hex()], det, size=len(data))
        acc.ev(n)
        acc.nt_counted(n)
        acc.states += n
        acc.transitions += n
        acc.sample({"verification_trailer_without_END": rpc.enc_vt([base_cmds[0]]).hex(), "followed_by": "64 KiB of zeros"})
    elif what == "short":
        n = 0
        strings = [b""] + [bytes([a]) for a in range(256)] + [bytes([a, b]) for a in range(256) for b in range(256)]
        for name, fn in [(shard[1], eps[shard[1]])]:
            for s in strings:
                if acc.too_many():
                    break
                v, det, steps, _ = case_term(name, fn, s)
                n += 1
                if v:
                    acc.violate(v, ["short", name, s.hex()], det, size=len(s))
        acc.ev(n)
        acc.nt_counted(n)
        acc.states += n
        acc.transitions += n
        acc.outcome("short-terminated", n)
        acc.sample({"all_byte_strings_of_length<=2": f"65,793 strings into {shard[1]}"})
    elif what == "mixed":
        # decoders of different kinds in one process, in every order: pairs and triples of representative messages
        reps = []
        for kind in WF_KINDS:
            items = list(gen_wellformed(kind))
            picks = [items[0], items[len(items) // 2], items[-1]] if kind in ("vt", "floor") else [items[len(items) // 3], items[-1]]
            for desc, mk, ref, unpack in picks:
                reps.append((desc, mk, ref, unpack))
        n = 0
        for k in (2, 3):
            for idx, seq in enumerate(itertools.product(range(len(reps)), repeat=k)):
                if idx % 4 != shard[1] or acc.too_many():
                    continue
                for j in seq:
                    desc, mk, ref, unpack = reps[j]
                    res = case_wellformed(desc, mk, ref, unpack)
                    if res:
                        acc.violate("mixed." + res[0], ["mixed", [reps[i][0] for i in seq], reps[j][0]], res[1], size=k)
                        break
                n += 1
        acc.ev(n)
        acc.nt_counted(n)
        acc.states += n
        acc.transitions += n * 3
        acc.outcome("mixed-sequences-ok", n)
        acc.sample({"cross-codec sequence": [reps[0][0], reps[-1][0], reps[len(reps) // 2][0]], "representatives": len(reps)})
    elif what == "mutate-repack":
        # a message object is packed, then changed in place (its lists are ordinary mutable lists), then packed again: the second encoding is
        # the encoding of the message as it is NOW (bind / alter_context: transfer syntaxes appended, replaced, removed; ept_map result: a tower
        # appended, a floor replaced)
        R, E, G = M()
        n = 0
        for kind_, pt, cls in (("bind", rpc.BIND, R.Bind), ("alter_context", rpc.ALTER_CONTEXT, R.AlterContext)):
            for nctx in (1, 2, 3):
                for mut in ("append", "replace", "clear", "append-context", "swap-contexts"):
                    ctxs = [(100 * i + 1, (SYNS[i % 4][0], 1, i), ((SYNS[i % 4][0], 1, 0),)) for i in range(nctx)]
                    obj = cls(header=hdr(R, pt, 3, 0, 0), sec_trailer=None, max_xmit_frag=4280, max_recv_frag=5840, assoc_group=0xA1B2C3,
                              contexts=[R.ContextElement(context_id=c, abstract_syntax=syn(R, a), transfer_syntaxes=[syn(R, x) for x in ts]) for c, a, ts in ctxs])
                    case = ["mutate-repack", kind_, nctx, mut]
                    try:
                        first = bytes(obj.pack())
                        ref1 = rpc.enc_bind_like(pt, 3, 7, ctxs, None, 4280, 5840, 0xA1B2C3)
                        extra = (SYNS[3][0], 2, 9)
                        if mut == "append":
                            obj.contexts[0].transfer_syntaxes.append(syn(R, extra))
                            ctxs[0] = (ctxs[0][0], ctxs[0][1], ctxs[0][2] + (extra,))
                        elif mut == "replace":
                            obj.contexts[-1].transfer_syntaxes[0] = syn(R, extra)
                            ctxs[-1] = (ctxs[-1][0], ctxs[-1][1], (extra,))
                        elif mut == "clear":
                            obj.contexts[0].transfer_syntaxes.clear()
                            ctxs[0] = (ctxs[0][0], ctxs[0][1], ())
                        elif mut == "append-context":
                            obj.contexts.append(R.ContextElement(context_id=999, abstract_syntax=syn(R, extra), transfer_syntaxes=[syn(R, extra)]))
                            ctxs.append((999, extra, (extra,)))
                        else:
                            obj.contexts.reverse()
                            ctxs.reverse()
                        second = bytes(obj.pack())
                        ref2 = rpc.enc_bind_like(pt, 3, 7, ctxs, None, 4280, 5840, 0xA1B2C3)
                    except Exception as e:  # noqa: BLE001
                        acc.violate(f"mutate-repack.exc.{type(e).__name__}", case, {"exc": repr(e)})
                        continue
                    n += 1
                    # (frag_len in the header is the caller's business: compare everything behind the 16-octet header)
                    if first[16:] != ref1[16:] or second[16:] != ref2[16:]:
                        acc.violate("mutate-repack.bytes", case, {"first_ok": first[16:] == ref1[16:], "second": second[16:].hex()[:160], "expected": ref2[16:].hex()[:160]})
                    else:
                        acc.outcome("mutate-repack-ok")
        tA = [repm.uuid_floor(rpc.ISD_KEY), repm.tcp_floor(49664), repm.ip_floor(0)]
        tB = [repm.uuid_floor(rpc.ISD_KEY), repm.tcp_floor(49665), repm.ip_floor(1)]
        for mut in ("append-tower", "replace-floor", "pop"):
            lst = [list(tA), list(tB)]
            obj = E.EptMapResult(entry_handle=None, towers=[[mk_floor(E, f) for f in tw] for tw in lst], status=0)
            case = ["mutate-repack", "ept_map_result", 2, mut]
            try:
                first = bytes(obj.pack())
                ref1 = repm.ept_map_response(lst, 0, b"\x00" * 20)
                if mut == "append-tower":
                    obj.towers.append([mk_floor(E, f) for f in tA])
                    lst.append(list(tA))
                elif mut == "replace-floor":
                    obj.towers[0][1] = mk_floor(E, repm.tcp_floor(135))
                    lst[0][1] = repm.tcp_floor(135)
                else:
                    obj.towers.pop(0)
                    lst.pop(0)
                second = bytes(obj.pack())
                ref2 = repm.ept_map_response(lst, 0, b"\x00" * 20)
            except Exception as e:  # noqa: BLE001
                acc.violate(f"mutate-repack.exc.{type(e).__name__}", case, {"exc": repr(e)})
                continue
            n += 1
            if first != ref1 or second != ref2:
                acc.violate("mutate-repack.bytes", case, {"first_ok": first == ref1, "second": second.hex()[:160], "expected": ref2.hex()[:160]})
            else:
                acc.outcome("mutate-repack-ok")
        acc.ev(n)
        acc.nt_counted(n)
        acc.states += n
        acc.transitions += 2 * n
        acc.sample({"packed, changed in place, packed again": ["bind", "alter_context", "ept_map_result"]})
    elif what == "manyunknown":
        # one process decodes MANY distinct values that the library has no name for (verification-trailer command types over the 14-bit
        # space, tower floor protocol ids over all 8 bits), then the first ones again: the n-th unknown value is handled like the first
        R, E, G = M()
        n = 0
        types = [t_ for t_ in range(4, 0x4000, 23)] + [0x3FFF]
        for rnd in (0, 1):
            for ty in (types if rnd == 0 else types[:40]):
                for ln in (0, 3):
                    ref = rpc.enc_vt([(1, 0, struct.pack("<I", 1)), (ty, rpc.VT_END, bytes(range(ln)))])
                    n += 1
                    try:
                        obj = R.VerificationTrailer.unpack(ref)
                        if bytes(obj.pack()) != ref:
                            acc.violate("manyunknown.vt.repack", ["manyunknown", "vt", ty, ln, rnd], {"got": bytes(obj.pack()).hex()})
                    except Exception as e:  # noqa: BLE001
                        acc.violate(f"manyunknown.vt.exc.{type(e).__name__}", ["manyunknown", "vt", ty, ln, rnd], {"exc": repr(e), "distinct_unknown_types_so_far": types.index(ty) if ty in types else -1})
                        if acc.too_many(50):
                            break
            for pid in range(256):
                raw = struct.pack("<HB", 1, pid) + struct.pack("<H", 2) + b"\x12\x34"
                n += 1
                try:
                    fl = E.Floor.unpack(raw) if hasattr(E.Floor, "unpack") else None
                    if fl is not None and bytes(fl.pack()) != raw and pid not in (0x07, 0x08, 0x09, 0x0B, 0x0D, 0x0F):
                        acc.violate("manyunknown.floor.repack", ["manyunknown", "floor", pid, rnd], {"got": bytes(fl.pack()).hex(), "raw": raw.hex()})
                except Exception as e:  # noqa: BLE001
                    if pid not in (0x07, 0x08, 0x09, 0x0B, 0x0D, 0x0F):
                        acc.violate(f"manyunknown.floor.exc.{type(e).__name__}", ["manyunknown", "floor", pid, rnd], {"exc": repr(e)})
        acc.ev(n)
        acc.nt_counted(n)
        acc.states += n
        acc.transitions += n
        acc.outcome("manyunknown-judged", n)
        acc.sample({"distinct unknown verification-trailer command types": len(types), "floor protocol ids": 256})
    elif what == "gk":
        from ref import ndr64

        n = 0
        for sdlen in range(0, 17):
            for rk in (None, U2):
                ref = ndr64.getkey_request(bytes(range(sdlen)), rk, 361, 1, 2)
                resp = ndr64.getkey_response(bytes(range(80 + sdlen)), 0)
                for name, data in (("GetKey.unpack", ref), ("GetKey.unpack_response", resp)):
                    for cut in range(len(data) + 1):
                        v, det, steps, _ = case_term(name, eps[name], data[:cut])
                        n += 1
                        if v:
                            acc.violate(v, ["gk", name, sdlen, cut], det, size=cut)
                    for off, width in ((0, 4), (0, 8), (8, 8)):
                        for sv in SUBST:
                            d2 = data[:off] + (sv & ((1 << 8 * width) - 1)).to_bytes(width, "little") + data[off + width :]
                            v, det, steps, peak = case_term(name, eps[name], d2, mem=True)
                            n += 1
                            if v:
                                acc.violate(v, ["gk-subst", name, sdlen, off, width, sv], det, size=len(d2))
        acc.ev(n)
        acc.nt_counted(n)
        acc.states += n
        acc.transitions += n
    else:
        raise AssertionError(shard)


def replay(case, seed, acc) -> None:
    eps = entry_points()
    acc.ev()
    what = case[0]
    if what == "wf":
        for desc, mk, ref, unpack in gen_wellformed(case[1][0]):
            if desc == case[1]:
                res = case_wellformed(desc, mk, ref, unpack)
                if res:
                    acc.violate(res[0], case, res[1])
    elif what in ("prefix", "subst"):
        kind = case[1]
        for desc, mk, ref, unpack in gen_wellformed(kind):
            if desc == case[2]:
                if what == "prefix":
                    data = ref[: case[3]]
                else:
                    off, width, sv = case[3], case[4], case[5]
                    data = ref[:off] + (sv & ((1 << 8 * width) - 1)).to_bytes(width, "little") + ref[off + width :]
                v, det, _, _ = case_term(KIND_EP[kind], eps[KIND_EP[kind]], data, mem=True)
                if v:
                    acc.violate(v, case, det)
    elif what == "mixed":
        allw = {}
        for kind in WF_KINDS:
            for desc, mk, ref, unpack in gen_wellformed(kind):
                allw[repr(desc)] = (desc, mk, ref, unpack)
        for dsc in case[1]:
            desc, mk, ref, unpack = allw[repr(dsc)]
            res = case_wellformed(desc, mk, ref, unpack)
            if res:
                acc.violate("mixed." + res[0], case, res[1])
                break
    elif what == "short":
        v, det, _, _ = case_term(case[1], eps[case[1]], bytes.fromhex(case[2]))
        if v:
            acc.violate(v, case, det)
    elif what == "mutate-repack":
        run_shard(["mutate-repack"], "quick", seed, acc)
        for kk in list(acc.violations):
            acc.violations[kk] = [e for e in acc.violations[kk] if e["case"] == case]
            if not acc.violations[kk]:
                del acc.violations[kk]
        acc.violation_count = sum(len(x) for x in acc.violations.values())
    elif what == "manyunknown":
        run_shard(["manyunknown"], "quick", seed, acc)
    elif what == "noend":
        base = {1: (1, 0, struct.pack("<I", 1)), 2: (2, 0, rpc.syntax_bytes(rpc.ISD_KEY) + rpc.syntax_bytes(rpc.NDR64)), 0x55: (0x55, 0, b"")}
        head = rpc.enc_vt([base[c] for c in case[1]])
        pat = bytes.fromhex(case[3]) if case[3] else b""
        tail = (pat * (case[2] // max(1, len(pat)) + 1))[: case[2]] if pat else b""
        v, det, _, _ = case_term("VerificationTrailer", eps["VerificationTrailer"], head + tail, mem=True)
        if v:
            acc.violate(v, case, det)


def calibrate() -> None:
    from mc.runner import HarnessError

    try:
        rpc.calibrate()
        repm.calibrate()
    except AssertionError as e:
        raise HarnessError(f"reference codec calibration failed: {e!r}") from e
