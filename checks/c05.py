"""C05 — decrypting untrusted bytes ends promptly with a deliberate error type."""
from __future__ import annotations

import typing as t

from checks import blobmut as bm
from env import seams
from mc import budget
from ref import cms

ID = "C05"
LEVEL = "model_checking"
RULE = (
    "every input below is run through the real ncrypt_unprotect_secret with offline key material (matching root key and, for part, a non-matching one) under a deterministic budget of "
    "100000+100*len interpreter line events inside dpapi_ng and 80 KDF invocations: (i) C04's mutation set (all bit flips, truncations, deletions, insertions, header-byte substitutions); "
    "(ii) structure-aware DER mutations at every node of the blob's DER tree (content emptied; length rewritten to 0,1,actual+-1,2^16,2^32-1,2^64,127 length octets,non-minimal,indefinite,FF; tag rewritten "
    "to each universal tag 0..36 and 127, each class, constructed toggled, high-tag-number form complete/truncated/endless; node duplicated/dropped), both with enclosing lengths kept consistent and in place; "
    "(iii) key-identifier grids L0 in {0,2^31-1,2^31,2^32-1,own} x L1,L2 in {0,31,32,2^31,2^32-1}, flags, length fields {0,1,2,3,actual+-1,2^32-1}, magic/version, truncated structures, public-key key_info "
    "variants; (iv) all byte strings of length <=2, all 2-byte headers followed by 0/1/64 zero bytes, the 16 Windows blobs truncated at every length. Oracle: return | needs-network | "
    "ValueError (and subclasses) | NotImplementedError | ASN.1 NotEnougData | InvalidTag | InvalidUnwrap, inside both budgets. state = one (key material, input) execution under budget; transition = one decoder/derivation run. "
    "Violations are grouped by (exception type, raising function)."
    ' Also every blob with its SID text replaced by ~150 strings whose numbers sit at the edges of their widths (2^32, 2^48, 15 / 16 sub-authorities, leading zeros, other radices, junk).'
)
ASSUME = ["step budget counts Python line events inside dpapi_ng only; time inside C primitives is not measured", "KBKDFHMAC.derive is the only KDF entry (call counter)"]
BOUND = {"quick": "5 base blobs for (i)-(iii); all strings <=2 bytes; Windows blobs truncated at every length", "thorough": "33 base blobs"}
KDF_CAP = 80


def worker_init() -> None:
    seams.block_network()


def allowed_types():
    from cryptography.exceptions import InvalidTag
    from cryptography.hazmat.primitives.keywrap import InvalidUnwrap

    from dpapi_ng._asn1 import NotEnougData

    return (ValueError, NotImplementedError, NotEnougData, InvalidTag, InvalidUnwrap)


def raising_site(e: BaseException) -> str:
    tb = e.__traceback__
    site = "?"
    while tb is not None:
        fn = tb.tb_frame.f_code.co_filename
        if "/dpapi_ng/" in fn:
            site = f"{fn.rsplit('/', 1)[1]}:{tb.tb_frame.f_code.co_name}"
        tb = tb.tb_next
    return site


MEM_BASE, MEM_PER_BYTE = 4 << 20, 256
_mem = {"on": False, "peak": 0}


def execute(rk, data: bytes, cache=None):
    import dpapi_ng

    cache = cache if cache is not None else seams.make_cache(rk)
    limit = 100000 + 100 * len(data)
    if _mem["on"]:
        import tracemalloc

        tracemalloc.start()
        try:
            return _execute(dpapi_ng, cache, data, limit)
        finally:
            _mem["peak"] = tracemalloc.get_traced_memory()[1]
            tracemalloc.stop()
    return _execute(dpapi_ng, cache, data, limit)


def _execute(dpapi_ng, cache, data: bytes, limit: int):
    try:
        v, steps, kdfs = budget.run(limit, dpapi_ng.ncrypt_unprotect_secret, data, cache=cache, kdf_limit=KDF_CAP)
        return "ok", v, steps, kdfs
    except seams.NeedsNetwork as e:
        return "net", e, budget.S.count, budget.S.kdf_calls
    except budget.BudgetExceeded as e:
        return "budget", e, budget.S.count, budget.S.kdf_calls
    except MemoryError as e:
        return "memory", e, budget.S.count, budget.S.kdf_calls
    except Exception as e:  # noqa: BLE001
        return "exc", e, budget.S.count, budget.S.kdf_calls


def judge(acc, rk, case, data: bytes, allowed, cache=None, mem: bool = False) -> None:
    _mem["on"] = mem
    try:
        st, v, steps, kdfs = execute(rk, data, cache)
    finally:
        _mem["on"] = False
    acc.stat_max("dpapi_lines", steps)
    acc.stat_max("kdf_calls", kdfs)
    if mem:
        acc.stat_max("peak_alloc_bytes", _mem["peak"])
        if _mem["peak"] > MEM_BASE + MEM_PER_BYTE * len(data):
            acc.violate("budget:memory", case, {"len": len(data), "peak_alloc": _mem["peak"], "limit": MEM_BASE + MEM_PER_BYTE * len(data), "data": data[:200].hex()}, size=len(data))
            acc.outcome("BUDGET-MEMORY")
            return
    if st == "memory":
        acc.violate("budget:memory", case, {"len": len(data), "detail": "MemoryError", "data": data[:200].hex()}, size=len(data))
        acc.outcome("BUDGET-MEMORY")
        return
    if st == "ok":
        acc.outcome("returned")
    elif st == "net":
        acc.outcome("needs-network")
    elif st == "budget" and "blocked" in str(v):
        # the call waits for something an EARLIER call of this shard left behind: only the whole history reproduces it
        acc.violate("budget:blocked", ["shard", _cur["shard"], _cur["tier"]] if cache is not None and _cur["shard"] else case, {"blocked_at": case, "detail": str(v)}, size=10**5)
        acc.outcome("BUDGET")
    elif st == "budget":
        acc.violate("budget:" + ("kdf" if "KDF" in str(v) else "steps"), case, {"len": len(data), "detail": str(v), "data": data[:200].hex()}, size=len(data))
        acc.outcome("BUDGET")
    elif isinstance(v, allowed):
        acc.outcome("error:" + type(v).__name__)
    else:
        site = raising_site(v)
        acc.violate(f"escape.{type(v).__name__}@{site}", case, {"exc": repr(v)[:200], "len": len(data), "data": data[:300].hex()}, size=len(data))
        acc.outcome("ESCAPE:" + type(v).__name__)


def shards(tier: str, seed: int):
    out = []
    for b in bm.bases(seed, tier, with_dh=True):
        dh = "/DH/" in b.bid
        if tier == "quick" and dh:
            kinds = ["sub"]  # a DH unprotect costs ~20 ms (2048-bit pow): quick keeps the structure-aware families for the DH blob, thorough has all
        else:
            kinds = ["flip", "trunc", "del", "ins", "sub"]
        for k in kinds:
            nparts = {"flip": 4, "ins": 2}.get(k, 1) * (2 if tier == "thorough" and dh else 1)
            for part in range(nparts):
                out.append(["simple", b.bid, k, part, nparts])
        out.append(["der", b.bid])
        out.append(["kid", b.bid])
        if "/nonce/" in b.bid and "/long" not in b.bid:
            out.append(["l0sweep", b.bid])
        if "/long" not in b.bid and not dh:
            out.append(["sidtext", b.bid])
    for part in range(8):
        out.append(["short", part])
    out.append(["hdr2"])
    for i in range(16):
        out.append(["wintrunc", i])
    return out


def other_root(seed: int):
    return seams.make_root(seams.Drbg(("C05-other", seed)), "SHA256")


_cur: t.Dict[str, t.Any] = {"shard": None, "tier": None}


def sid_texts() -> t.List[str]:
    """descriptor strings for the blob's SID field: every number of the SID at the edges of its width (2^k-1, 2^k, 2^k+1), counts of
    sub-authorities around the maximum, leading zeros, other radices, junk"""
    edge32 = [0, 1, 2**31 - 1, 2**31, 2**32 - 1, 2**32, 2**32 + 1, 2**33, 2**63, 2**64, 2**64 + 1, 10**40]
    edge48 = [0, 5, 2**32 - 1, 2**32, 2**48 - 1, 2**48, 2**48 + 1, 2**56, 2**64]
    out = []
    for v in edge32:
        for posn in range(5):
            subs = [21, 1, 2, 3, 1104]
            subs[posn] = v
            out.append("S-1-5-" + "-".join(str(x) for x in subs))
        out.append(f"S-1-5-{v}")
        out.append(f"S-1-5-21-{v:011d}-7")
    for a in edge48:
        out += [f"S-1-{a}-21-1-2-3-1104", f"S-1-0x{a:X}-32-544", f"S-1-0x{a:012X}-18"]
    for r in (0, 1, 2, 15, 255, 256, 2**32):
        out.append(f"S-{r}-5-18")
    for cnt in (0, 1, 14, 15, 16, 17, 255, 256):
        out.append("S-1-5" + "".join(f"-{i + 1}" for i in range(cnt)))
    out += ["", "S", "S-", "S-1", "S-1-", "S-1-5-", "s-1-5-18", "S-1-5-18-", "S-1-5--18", "S-1-5-+18", "S-1-5- 18", "S-1-5-18 ", " S-1-5-18", "S-1-5-1_8", "S-1-5-0x12", "S-1-5-1e3", "S-1-5-18\x00", "S-1-5-\u0661\u0668", "S-1-5-\uff11\uff18", "\ufeffS-1-5-18", "S-1-5-18\n", "S" + "-1" * 400, "S-1-5-" + "9" * 4000]
    return out


def l0_variants(base: bm.Base, l0s) -> t.List[t.Tuple[int, bytes]]:
    from ref import cms, gkdi

    b = cms.decode(base.blob)
    kid = gkdi.unpack_keyid(b.keyid)
    return [(l0, cms.encode(b._replace(keyid=gkdi.pack_keyid(kid._replace(l0=l0))))) for l0 in l0s]


def run_shard(shard, tier, seed, acc) -> None:
    worker_init()
    _cur.update(shard=shard, tier=tier)
    allowed = allowed_types()
    what = shard[0]
    if what == "l0sweep":
        # ONE long-lived cache (root key loaded) meets blobs that name many different L0 values (all wrong keys -> rejected), in
        # ascending, descending and zig-zag order; afterwards the untouched blob and valid blobs of lower / higher L0 still open on it
        base = bm.base_by_id(seed, shard[1])
        d = seams.Drbg(("C05l0", seed))
        l0b = bm.POS[0]
        olds = {l0: cms.ref_encrypt(base.rk, bm.SID, b"old", (l0, 3, 5), cek=d.bytes(32), gcm_nonce_=d.bytes(12), key_nonce=d.bytes(32)) for l0 in (l0b - 40, l0b - 1, l0b + 1, 5)}
        n = 0
        for order in ("asc", "desc", "zigzag"):
            warm = seams.make_cache(base.rk)
            l0s = [l0b - 30 + 3 * i for i in range(40) if l0b - 30 + 3 * i != l0b]
            if order == "desc":
                l0s = l0s[::-1]
            elif order == "zigzag":
                l0s = [x for pair in zip(l0s[:20], l0s[:19:-1]) for x in pair]
            for l0, data in l0_variants(base, l0s):
                judge(acc, base.rk, ["l0sweep", base.bid, order, l0], data, allowed, cache=warm)
                n += 1
            for name, data, want in [("valid", base.blob, base.plaintext)] + [(f"old{l0}", blob_, b"old") for l0, blob_ in olds.items()]:
                st, v, steps, kdfs = execute(base.rk, data, warm)
                n += 1
                if st != "ok" or bytes(v) != want:
                    acc.violate("l0sweep.valid-blob-fails-after-history", ["shard", shard, tier], {"order": order, "which": name, "outcome": st, "value": repr(v)[:120]}, size=10**5)
                else:
                    acc.outcome("l0sweep:valid-ok")
        acc.ev(n)
        acc.nt_counted(n)
        acc.states += n
        acc.transitions += n
        acc.sample({"blob": base.bid, "L0 values on one cache": 39, "orders": ["asc", "desc", "zigzag"]})
        return
    n = 0
    if what == "sidtext":
        base = bm.base_by_id(seed, shard[1])
        b_ = cms.decode(base.blob)
        warm = seams.make_cache(base.rk)
        for i_, text in enumerate(sid_texts()):
            try:
                data = cms.encode(b_._replace(sid=text))
            except Exception:  # noqa: BLE001
                continue
            judge(acc, base.rk, ["sidtext", base.bid, i_], data, allowed, cache=warm if i_ % 2 else None)
            n += 1
            acc.nt((base.bid, data))
        acc.ev(n)
        acc.states += n
        acc.transitions += n
        acc.sample({"blob": base.bid, "SID field replaced by": sid_texts()[5:9] + sid_texts()[-4:-2]})
        return
    if what in ("simple", "der", "kid"):
        base = bm.base_by_id(seed, shard[1])
        st, v, steps, kdfs = execute(base.rk, base.blob)
        if st != "ok" or bytes(v) != base.plaintext:
            from mc.runner import HarnessError

            raise HarnessError(f"base blob {base.bid}: {st} {v!r}")
        acc.stat_max("dpapi_lines_valid_blob", steps)
        acc.stat_max("kdf_calls_valid_blob", kdfs)
        if what == "simple":
            part, nparts = (shard[3], shard[4]) if len(shard) > 4 else (0, 1)
            gen = ((lab, d) for i_, (lab, d) in enumerate(x for x in bm.simple_mutations(base.blob) if x[0][0] == shard[2]) if i_ % nparts == part)
        elif what == "der":
            gen = bm.der_mutations(base.blob)
        else:
            gen = bm.keyid_mutations(base.blob)
        wrong = other_root(seed)._replace(rkid=base.rk.rkid)
        # a cache with history: it has already opened the valid blob and is shared by all later (mutated) inputs of this shard
        warm = seams.make_cache(base.rk)
        execute(base.rk, base.blob, warm)
        fm = bm.field_map(base.blob)
        kid_span = [(s_, e_) for s_, e_, nm in fm if nm.startswith("kid.")]
        k0, k1 = (min(s_ for s_, _ in kid_span), max(e_ for _, e_ in kid_span)) if kid_span else (0, 0)
        for lab, data in gen:
            if acc.too_many():
                break
            in_kid0 = what == "kid" or (lab[0] in ("flip", "sub") and k0 <= (lab[1] // 8 if lab[0] == "flip" else lab[1]) < k1)
            judge(acc, base.rk, ["mut", base.bid, lab], data, allowed, mem=in_kid0)
            n += 1
            acc.nt((base.bid, data))
            in_kid = what == "kid" or (lab[0] in ("flip", "sub") and k0 <= (lab[1] // 8 if lab[0] == "flip" else lab[1]) < k1)
            if in_kid or n % 16 == 0:
                judge(acc, base.rk, ["mut-warmcache", base.bid, lab], data, allowed, cache=warm)
                n += 1
            if what == "kid" or (what == "der" and n % 2 == 0) or n % 16 == 0:
                judge(acc, wrong, ["mut-wrongkey", base.bid, lab], data, allowed)
                n += 1
        acc.sample({"blob": base.bid, "family": what, "last_mutation": lab})
    elif what == "short":
        rk = other_root(seed)
        part = shard[1]
        strings = ([b""] if part == 0 else []) + [bytes([a]) for a in range(part, 256, 8)] + [bytes([a, b]) for a in range(part, 256, 8) for b in range(256)]
        for s in strings:
            judge(acc, rk, ["raw", s.hex()], s, allowed)
            n += 1
        acc.nt_counted(n)
        acc.sample({"all_strings_len<=2": f"part {part}/8, {n} strings"})
    elif what == "hdr2":
        rk = other_root(seed)
        for a in range(256):
            for b in range(256):
                for tail in (1, 64):
                    s = bytes([a, b]) + b"\x00" * tail
                    judge(acc, rk, ["raw", s.hex()], s, allowed)
                    n += 1
        acc.nt_counted(n)
    elif what == "wintrunc":
        name, rk, data = cms.load_vectors()[shard[1]]
        wrong = other_root(seed)._replace(rkid=rk.rkid)
        for cut in range(len(data) + 1):
            judge(acc, rk, ["win", shard[1], cut], data[:cut], allowed)
            judge(acc, wrong, ["win-wrongkey", shard[1], cut], data[:cut], allowed)
            n += 2
        acc.nt_counted(n)
        acc.sample({"windows_vector": name, "truncated_at": "every length 0..%d" % len(data)})
    acc.ev(n)
    acc.states += n
    acc.transitions += n


def replay(case, seed, acc) -> None:
    worker_init()
    allowed = allowed_types()
    acc.ev()
    k = case[0]
    if k == "l0sweep":
        run_shard(["l0sweep", case[1]], "quick", seed, acc)
        for kk in list(acc.violations):
            acc.violations[kk] = [e for e in acc.violations[kk] if e["case"] == case]
            if not acc.violations[kk]:
                del acc.violations[kk]
        acc.violation_count = sum(len(v) for v in acc.violations.values())
        return
    if k in ("mut", "mut-wrongkey", "mut-warmcache"):
        base = bm.base_by_id(seed, case[1])
        lab = case[2]
        if lab[0] == "der":
            data = bm.der_mutation_by_label(base.blob, lab)
        elif lab[0] == "kid":
            data = bm.keyid_mutation_by_label(base.blob, lab)
        else:
            data = bm.apply_simple(base.blob, lab)
        rk = base.rk if k != "mut-wrongkey" else other_root(seed)._replace(rkid=base.rk.rkid)
        warm = None
        if k == "mut-warmcache":
            warm = seams.make_cache(base.rk)
            execute(base.rk, base.blob, warm)
        judge(acc, rk, case, data, allowed, cache=warm)
    elif k == "sidtext":
        base = bm.base_by_id(seed, case[1])
        judge(acc, base.rk, case, cms.encode(cms.decode(base.blob)._replace(sid=sid_texts()[case[2]])), allowed)
    elif k == "raw":
        judge(acc, other_root(seed), case, bytes.fromhex(case[1]), allowed)
    elif k in ("win", "win-wrongkey"):
        name, rk, data = cms.load_vectors()[case[1]]
        if k == "win-wrongkey":
            rk = other_root(seed)._replace(rkid=rk.rkid)
        judge(acc, rk, case, data[: case[2]], allowed)


def calibrate() -> None:
    from mc.runner import HarnessError

    try:
        cms.calibrate()
    except AssertionError as e:
        raise HarnessError(f"calibration failed: {e!r}") from e


def finish(tier, seed, merged) -> None:
    from mc.runner import Vacuous

    if merged.violation_count:
        return
    need = ["returned", "error:ValueError", "error:InvalidTag", "error:InvalidUnwrap", "error:NotEnougData"]
    missing = [k for k in need if not merged.outcomes.get(k)]
    if missing:
        raise Vacuous(f"outcome classes never observed: {missing}")
