"""C14 — replies reassemble identically under any TCP segmentation; EOF is an error."""
from __future__ import annotations

import itertools
import typing as t

from env import secctx, seams, transport
from mc import budget, vloop
from ref import dcerpc as rpc

ID = "C14"
LEVEL = "model_checking"
RULE = (
    "stateless exploration of delivery schedules of one server reply over a scripted transport (sync: FakeSocket returning at most the current chunk per "
    "recv/recv_into; async: real asyncio.StreamReader fed chunk by chunk on the virtual loop). Replies: bind_ack, bind_ack+auth, alter_context_resp, response "
    "(stub 0,1,100,1000,5000), fault. Schedules: all partitions into 1..3 chunks (every cut pair) for replies <= 200/400 bytes, all 1-2 chunk partitions plus all "
    "3-chunk partitions with a cut in the first 32 bytes for larger ones, all 2^15 compositions of the 16-byte header, byte-by-byte delivery, five exchanges of very different reply lengths on one connection (long, short, fault, medium, empty) with a cut at every header offset of each, and EOF after every "
    "byte offset combined with every 1-2 chunk partition of the delivered prefix; the truncation is ended by a clean FIN and (for the uncut prefix and cuts at 1 / 16) by a read error (timeout, connection reset); FIN delivered together with / one step behind the last segment of a complete reply. Oracle: complete delivery => same outcome (PDU or exception) as unsegmented delivery; "
    "EOF => an ordinary exception after <= 2 EOF reads, inside the step budget. state = (reply, api, cut set, eof offset) schedule; transition = one chunk/EOF delivery. "
    "Also through the public API: two unprotect calls per process to a mixed-case server whose key-service connection is closed 0/1/9/16/40 octets into its bind_ack or GetKey reply - each call raises after <= 4 connections. The whole check runs under socket.setdefaulttimeout(0.25); the fake socket honours a finite timeout left on it. "
    "Non-trivial = at least one cut or an EOF (the environment deviated from the default answer)."
    ' Half of the async schedules drive the client through `async with`; the async transport exposes a socket object whose SO_RCVLOWAT, if set, delays delivery as the kernel would.'
)
ASSUME = ["a read returns between 1 and n available bytes, or EOF; this is what FakeSocket / feed_data model", "the peer sends exactly one reply per client PDU"]
BOUND = {"quick": "<=2 cuts for replies <=200 bytes; large replies: cut1 in first 32 bytes x boundary list; header compositions for one reply", "thorough": "<=2 cuts for replies <=400 bytes; large replies: cut1<=32 x every cut2; header compositions for every reply kind"}

EPM_CTX = [(0, rpc.EPM, (rpc.NDR64,))]
KINDS = ["bind_ack", "bind_ack_auth", "alter_resp", "resp0", "resp1", "resp100", "resp1000", "resp5000", "fault"]


def canned(kind: str) -> t.Tuple[t.List[bytes], int]:
    """(replies per exchange, index of the exchange whose reply is segmented)"""
    ack = rpc.enc_ack_like(rpc.BIND_ACK, 3, 1, [(0, 0, rpc.NDR64)], None, b"135\x00")
    if kind == "bind_ack":
        return [ack], 0
    if kind in ("bind_ack_auth", "alter_resp"):
        a1 = rpc.enc_ack_like(rpc.BIND_ACK, 7, 1, [(0, 0, rpc.NDR64)], dict(type=10, level=6, token=b"SRV-TOKEN-ONE-" * 5), b"49664\x00")
        a2 = rpc.enc_ack_like(rpc.ALTER_CONTEXT_RESP, 7, 1, [(0, 0, rpc.NDR64)], dict(type=10, level=6, token=b"SRV-TOKEN-TWO"), b"")
        return [a1, a2], 0 if kind == "bind_ack_auth" else 1
    if kind.startswith("resp"):
        n = int(kind[4:])
        stub = bytes((i * 7 + 3) & 0xFF for i in range(n))
        return [rpc.enc_response(1, 0, stub)], 0
    if kind == "fault":
        return [rpc.enc_fault(1, 0, 0x1C010003, b"\x00" * 4)], 0
    raise AssertionError(kind)


class Peer:
    def __init__(self, replies: t.List[bytes], target: int, chunks: t.List[t.Optional[bytes]]) -> None:
        self.replies, self.target, self.chunks = replies, target, chunks
        self.n = 0

    def connect(self, host: str, port: int) -> "Peer":
        return self

    def feed(self, data: bytes) -> t.List[t.Optional[bytes]]:
        i = self.n
        self.n += 1
        if i == self.target:
            return list(self.chunks)
        if i < len(self.replies):
            return [self.replies[i]]
        return [None]


def _contexts():
    from dpapi_ng._epm import EPM
    from dpapi_ng._rpc import NDR64, ContextElement

    return [ContextElement(context_id=0, abstract_syntax=EPM, transfer_syntaxes=[NDR64])]


def _ctx_factory(u, p, **kw):
    return secctx.ScriptedContext([b"CLIENT-TOKEN-1", b"CLIENT-TOKEN-2"], 16)


_form = [0]


def drive_sync(kind: str):
    from dpapi_ng._rpc import create_rpc_connection

    auth = kind in ("bind_ack_auth", "alter_resp")
    rpcc = create_rpc_connection("dc", 135, username="u" if auth else None, password="p" if auth else None, auth_protocol="ntlm" if auth else None)
    if _form[0] % 2:
        # every other execution uses the client as a context manager, the way the library's own GetKey path does: whatever leaves the
        # with block (a PDU or an error) is what the caller sees
        sentinel = object()
        out: t.Any = sentinel
        with rpcc:
            if kind.startswith("resp") or kind == "fault":
                out = rpcc.request(0, 3, b"stub-data")
            else:
                out = rpcc.bind(contexts=_contexts())
        if out is sentinel:
            return "WITH-BLOCK-LEFT-SILENTLY: an error raised inside it was swallowed by __exit__"
        return out
    try:
        if kind.startswith("resp") or kind == "fault":
            return rpcc.request(0, 3, b"stub-data")
        return rpcc.bind(contexts=_contexts())
    finally:
        rpcc.close()


async def drive_async(kind: str):
    from dpapi_ng._rpc import async_create_rpc_connection

    auth = kind in ("bind_ack_auth", "alter_resp")
    rpcc = await async_create_rpc_connection("dc", 135, username="u" if auth else None, password="p" if auth else None, auth_protocol="ntlm" if auth else None)
    if _form[0] % 2:
        # (as in the sync driver) every other execution uses `async with`, the way the library's own GetKey path does
        sentinel = object()
        out: t.Any = sentinel
        async with rpcc:
            if kind.startswith("resp") or kind == "fault":
                out = await rpcc.request(0, 3, b"stub-data")
            else:
                out = await rpcc.bind(contexts=_contexts())
        if out is sentinel:
            return "WITH-BLOCK-LEFT-SILENTLY: an error raised inside it was swallowed by __aexit__"
        return out
    try:
        if kind.startswith("resp") or kind == "fault":
            return await rpcc.request(0, 3, b"stub-data")
        return await rpcc.bind(contexts=_contexts())
    finally:
        await rpcc.close()


STEP_LIMIT = 30000


def execute(api: str, kind: str, chunks: t.List[t.Optional[bytes]], budgeted: bool = False):
    """-> (status, value, eof_reads)   status in ok|exc|spin|blocks|budget|deadlock"""
    replies, target = canned(kind)
    peer = Peer(replies, target, chunks)
    # which calling form the sync driver uses is a function of the schedule (so that a replay takes the same one): odd chunk counts -> `with`
    _form[0] = len(chunks) + sum(len(c) for c in chunks if isinstance(c, (bytes, bytearray))) % 2
    with transport.network(peer, defer=(api == "async")) as hub, secctx.scripted_client(_ctx_factory):
        try:
            if api == "sync":
                v = budget.run(STEP_LIMIT, drive_sync, kind)[0] if budgeted else drive_sync(kind)
            else:
                # one segment per idle point of the loop: the client really sees the reply arrive chunk by chunk
                v = budget.run(STEP_LIMIT, vloop.run, drive_async(kind), hub.release_chunk)[0] if budgeted else vloop.run(drive_async(kind), hub.release_chunk)
            st = "ok"
        except transport.Spin as e:
            st, v = "spin", repr(e)
        except transport.BlocksForever as e:
            st, v = "blocks", repr(e)
        except vloop.Deadlock as e:
            st, v = "blocks", repr(e)
        except budget.BudgetExceeded as e:
            st, v = "budget", repr(e)
        except Exception as e:  # noqa: BLE001
            st, v = "exc", (type(e).__name__, str(e)[:200])
        eof_reads = max([getattr(s, "eof_reads", 0) for s in hub.sockets] or [0])
    return st, v, eof_reads


class SeqPeer:
    """one connection, several requests; replies of very different lengths, each delivered in chosen chunks"""

    def __init__(self, replies: t.List[t.List[t.Optional[bytes]]]) -> None:
        self.replies = replies
        self.n = 0

    def connect(self, host: str, port: int) -> "SeqPeer":
        return self

    def feed(self, data: bytes) -> t.List[t.Optional[bytes]]:
        i = self.n
        self.n += 1
        return list(self.replies[i]) if i < len(self.replies) else [None]


def run_seq(api: str, chunked: t.List[t.List[t.Optional[bytes]]]):
    from dpapi_ng._rpc import async_create_rpc_connection, create_rpc_connection

    peer = SeqPeer(chunked)
    out: t.List[t.Any] = []
    with transport.network(peer, defer=(api == "async")) as hub:
        try:
            if api == "sync":
                c = create_rpc_connection("dc", 135)
                try:
                    for _ in chunked:
                        try:
                            out.append(("ok", c.request(0, 3, b"stub-data")))
                        except Exception as e:  # noqa: BLE001
                            out.append(("exc", (type(e).__name__, str(e)[:120])))
                finally:
                    c.close()
            else:

                async def go():
                    c = await async_create_rpc_connection("dc", 135)
                    try:
                        for _ in chunked:
                            try:
                                out.append(("ok", await c.request(0, 3, b"stub-data")))
                            except Exception as e:  # noqa: BLE001
                                out.append(("exc", (type(e).__name__, str(e)[:120])))
                    finally:
                        await c.close()

                vloop.run(go(), hub.release_chunk)
        except (transport.Spin, transport.BlocksForever, vloop.Deadlock) as e:
            out.append(("blocks", repr(e)))
    return out


def split(reply: bytes, cuts: t.Sequence[int]) -> t.List[t.Optional[bytes]]:
    out: t.List[t.Optional[bytes]] = []
    prev = 0
    for c in cuts:
        out.append(reply[prev:c])
        prev = c
    out.append(reply[prev:])
    return out


def cutsets(n: int, tier: str, small_limit: int) -> t.Iterator[t.Tuple[int, ...]]:
    yield ()
    for c in range(1, n):
        yield (c,)
    if n <= small_limit:
        yield from itertools.combinations(range(1, n), 2)
    else:
        if tier == "thorough":
            seconds = range(1, n)
        else:
            seconds = sorted(set(list(range(1, 40)) + [n // 2, n - 17, n - 16, n - 15, n - 2, n - 1] + list(range(1000, n, 1000))))
        for c1 in range(1, 33):
            for c2 in seconds:
                if c2 > c1 and c2 < n:
                    yield (c1, c2)


def shards(tier: str, seed: int):
    out = []
    for api in ("sync", "async"):
        for kind in KINDS:
            out.append(["cuts", api, kind])
            out.append(["eof", api, kind])
        hk = ["resp100"] if tier == "quick" else ["bind_ack", "bind_ack_auth", "resp0", "resp100", "fault"]
        for kind in hk:
            for part in range(8):
                out.append(["hdr", api, kind, part])
        out.append(["bytes", api])
        out.append(["seq", api])
        out.append(["api-eof", api])
    return out


def judge_complete(acc, api, kind, cuts, base, got, label) -> None:
    st, v, _ = got
    bst, bv, _ = base
    case = [label, api, kind, list(cuts)]
    if st in ("spin", "blocks", "budget"):
        acc.violate(f"complete.{st}.{api}", case, {"detail": v}, size=len(cuts) * 100000 + sum(cuts))
    elif (st, v) != (bst, bv):
        acc.violate(f"complete.differs.{api}", case, {"segmented": [st, repr(v)[:300]], "unsegmented": [bst, repr(bv)[:300]]}, size=len(cuts) * 100000 + sum(cuts))
    acc.outcome(f"complete:{st}")


FAULTS = {"timeout": lambda: TimeoutError("timed out"), "reset": lambda: ConnectionResetError(104, "Connection reset by peer")}


def judge_eof(acc, api, kind, cuts, eof_at, got, fault: t.Optional[str] = None) -> None:
    st, v, eof_reads = got
    case = ["eof", api, kind, list(cuts), eof_at] + ([fault] if fault else [])
    if st == "exc":
        if eof_reads > 2:
            acc.violate(f"eof.reads-after-eof.{api}", case, {"eof_reads": eof_reads}, size=eof_at)
        acc.outcome(f"eof:error:{v[0]}")
    elif st == "ok":
        acc.violate(f"eof.returned-pdu.{api}", case, {"value": repr(v)[:300]}, size=eof_at)
    else:
        acc.violate(f"eof.{st}.{api}", case, {"detail": v}, size=eof_at)
        acc.outcome(f"eof:{st}")


def run_shard(shard, tier, seed, acc) -> None:
    import socket as _socket

    _socket.setdefaulttimeout(0.25)  # the application has set a process-wide default socket timeout (part of the environment)
    seams.block_network()
    what, api = shard[0], shard[1]
    small = 200 if tier == "quick" else 400
    if what == "cuts":
        kind = shard[2]
        replies, target = canned(kind)
        reply = replies[target]
        n = len(reply)
        base = execute(api, kind, [reply])
        if base[0] not in ("ok", "exc"):
            acc.violate(f"baseline.{base[0]}.{api}", ["cuts", api, kind, []], {"detail": base[1]})
        cnt = 0
        for cuts in cutsets(n, tier, small):
            got = execute(api, kind, split(reply, cuts))
            judge_complete(acc, api, kind, cuts, base, got, "cuts")
            cnt += 1
            acc.transitions += len(cuts) + 1
            if cuts:
                acc.nt_counted()
            if target == len(replies) - 1 and (len(cuts) <= 1 or cuts[0] <= 4):  # (only when no further exchange follows)
                # the peer closes right after a COMPLETE reply: FIN delivered together with the last segment, or one step behind it
                parts = split(reply, cuts)
                for fin, chunks in (("fin-with", parts[:-1] + [(parts[-1], None)]), ("fin-behind", parts + [None])):
                    got = execute(api, kind, chunks)
                    judge_complete(acc, api, kind, cuts, base, got, "cuts+" + fin)
                    cnt += 1
                    acc.nt_counted()
                    acc.transitions += len(cuts) + 2
        acc.ev(cnt)
        acc.states += cnt
        acc.sample({"api": api, "reply": kind, "bytes": n, "schedule": "chunks end at " + str(list(cuts))})
    elif what == "hdr":
        kind, part = shard[2], shard[3]
        replies, target = canned(kind)
        reply = replies[target]
        base = execute(api, kind, [reply])
        cnt = 0
        for mask in range(part, 2**15, 8):
            cuts = tuple(i + 1 for i in range(15) if mask >> i & 1)
            got = execute(api, kind, split(reply, cuts))
            judge_complete(acc, api, kind, cuts, base, got, "hdr")
            cnt += 1
            acc.transitions += len(cuts) + 1
        acc.ev(cnt)
        acc.states += cnt
        acc.nt_counted(cnt - (1 if part == 0 else 0))
        acc.sample({"api": api, "reply": kind, "header_composition_mask": mask})
    elif what == "bytes":
        for kind in KINDS:
            replies, target = canned(kind)
            reply = replies[target]
            if len(reply) > 1100 and tier == "quick":
                continue
            base = execute(api, kind, [reply])
            cuts = tuple(range(1, len(reply)))
            got = execute(api, kind, split(reply, cuts))
            judge_complete(acc, api, kind, ("every-byte",) if False else cuts[:0] + (len(cuts),), base, got, "bytes")
            acc.ev()
            acc.states += 1
            acc.transitions += len(reply)
            acc.nt_counted()
    elif what == "seq":
        # several exchanges on ONE connection, replies long -> short -> fault -> medium, each with a cut at every listed offset
        kinds = ["resp1000", "resp1", "fault", "resp100", "resp0"]
        replies = [canned(k)[0][0] for k in kinds]
        base = run_seq(api, [[r] for r in replies])
        cnt = 0
        for which in range(len(kinds)):
            nrep = len(replies[which])
            for cut in sorted(set(list(range(1, min(nrep, 40))) + [nrep // 2, nrep - 1])):
                if not 0 < cut < nrep:
                    continue
                chunked = [[r] for r in replies]
                chunked[which] = split(replies[which], (cut,))
                got = run_seq(api, chunked)
                cnt += 1
                acc.transitions += len(kinds) + 1
                if got != base:
                    i = next((i for i, (x, y) in enumerate(zip(got, base)) if x != y), min(len(got), len(base)))
                    acc.violate(f"seq.differs.{api}", ["seq", api, which, cut], {"exchange": i, "segmented": repr(got[i] if i < len(got) else None)[:300], "unsegmented": repr(base[i] if i < len(base) else None)[:300]}, size=cut)
        if [st for st, _ in base] != ["ok", "ok", "exc", "ok", "ok"]:
            acc.violate(f"seq.baseline.{api}", ["seq", api, -1, 0], {"baseline": repr([st for st, _ in base])})
        for (st, v), k in zip(base, kinds):
            if st == "ok" and bytes(v.stub_data) != rpc.decode(canned(k)[0][0])["stub"]:
                acc.violate(f"seq.stale-bytes.{api}", ["seq", api, -1, 0], {"reply": k, "got_len": len(v.stub_data)})
        acc.ev(cnt)
        acc.states += cnt
        acc.nt_counted(cnt)
        acc.sample({"api": api, "one connection": kinds, "cut_in_reply": which, "cut_at": cut})
    elif what == "api-eof":
        # through the public API, twice in a row in one process, against a key service that closes the connection k bytes into its
        # bind_ack / its GetKey reply (server name in mixed case): each call ends with an error after a bounded number of connections
        import dpapi_ng

        from env import refdc
        from ref import cms as _cms

        d_ = seams.Drbg(("C14api", seed))
        rk = seams.make_root(d_, "SHA256")
        blob = _cms.ref_encrypt(rk, "S-1-5-21-1-2-3-1104", b"c14", (361, 3, 5), cek=d_.bytes(32), gcm_nonce_=d_.bytes(12), key_nonce=d_.bytes(32))
        cnt = 0
        for which in ("bind_ack", "getkey"):
            for k in (0, 1, 9, 16, 40):
                dc = refdc.DC([rk], now=(361, 10, 12))

                def seg(conn, reply, which=which, k=k):
                    if conn.kind != "isd":
                        return [reply]
                    is_ack = reply[2] == rpc.BIND_ACK
                    if (which == "bind_ack") == is_ack:
                        return ([reply[:k]] if k else []) + [None]
                    return [reply]

                dc.segment_conn = seg
                for call in (0, 1):
                    case = ["api-eof", api, which, k, call]
                    with transport.network(dc, defer=(api == "async")) as hub, secctx.scripted_client(lambda u, p, **kw: secctx.ScriptedContext([b"C1"], 16)):
                        kw = dict(server="DC01.Verif.Test", username="u", password="p", auth_protocol="ntlm")
                        try:
                            if api == "sync":
                                v = budget.run(STEP_LIMIT * 4, dpapi_ng.ncrypt_unprotect_secret, blob, **kw)[0]
                            else:
                                v = budget.run(STEP_LIMIT * 4, vloop.run, dpapi_ng.async_ncrypt_unprotect_secret(blob, **kw), hub.release_chunk)[0]
                            acc.violate("api-eof.returned", case, {"value": repr(bytes(v))[:40]}, size=k)
                        except budget.BudgetExceeded as e:
                            acc.violate("api-eof.no-termination", case, {"detail": repr(e), "connections": len(hub.attempts)}, size=k)
                        except (transport.Spin, transport.BlocksForever, vloop.Deadlock) as e:
                            acc.violate("api-eof.blocks", case, {"detail": repr(e), "connections": len(hub.attempts)}, size=k)
                        except Exception:  # noqa: BLE001
                            if len(hub.attempts) > 4:
                                acc.violate("api-eof.too-many-connections", case, {"connections": hub.attempts}, size=k)
                            acc.outcome("api-eof:error")
                    cnt += 1
        acc.ev(cnt)
        acc.states += cnt
        acc.nt_counted(cnt)
        acc.sample({"api": api, "key service closes the connection": "0, 1, 9, 16, 40 bytes into its bind_ack / GetKey reply", "calls per process": 2})
    elif what == "eof":
        kind = shard[2]
        replies, target = canned(kind)
        reply = replies[target]
        n = len(reply)
        cnt = 0
        offs = range(0, n) if n <= small else sorted(set(list(range(0, 40)) + list(range(40, n, 97)) + [n - 17, n - 16, n - 2, n - 1]))
        for eof_at in offs:
            cs: t.List[t.Tuple[int, ...]] = [()]
            if eof_at > 1:
                cs += [(c,) for c in (range(1, eof_at) if eof_at <= small else sorted(set([1, 8, 15, 16, 17, 24, eof_at - 1])))]
            for cuts in cs:
                chunks = [c for c in split(reply[:eof_at], cuts) if c] + [None]
                got = execute(api, kind, chunks, budgeted=True)
                judge_eof(acc, api, kind, cuts, eof_at, got)
                cnt += 1
                acc.transitions += len(chunks)
                if len(cuts) == 0 or cuts[0] in (1, 16):
                    # the same truncation ended by a transport error instead of a clean FIN: a timeout / reset reported by the read
                    for fname, mk in FAULTS.items():
                        got = execute(api, kind, chunks[:-1] + [mk()], budgeted=True)
                        judge_eof(acc, api, kind, cuts, eof_at, got, fault=fname)
                        cnt += 1
                        acc.transitions += len(chunks)
        acc.ev(cnt)
        acc.states += cnt
        acc.nt_counted(cnt)
        acc.stat_max("dpapi_lines_eof_case", budget.last_steps())
        acc.sample({"api": api, "reply": kind, "eof_after_bytes": eof_at, "prefix_cuts": list(cuts)})
    else:
        raise AssertionError(shard)


def replay(case, seed, acc) -> None:
    import socket as _socket

    _socket.setdefaulttimeout(0.25)
    seams.block_network()
    label, api, kind = case[0], case[1], case[2]
    if label == "api-eof":
        run_shard(["api-eof", api], "quick", seed, acc)
        for kk in list(acc.violations):
            acc.violations[kk] = [e for e in acc.violations[kk] if e["case"] == case]
            if not acc.violations[kk]:
                del acc.violations[kk]
        acc.violation_count = sum(len(v) for v in acc.violations.values())
        return
    if label == "seq":
        run_shard(["seq", api], "quick", seed, acc)
        return
    replies, target = canned(kind)
    reply = replies[target]
    acc.ev()
    if label == "eof":
        cuts, eof_at = case[3], case[4]
        fault = case[5] if len(case) > 5 else None
        chunks = [c for c in split(reply[:eof_at], cuts) if c] + [FAULTS[fault]() if fault else None]
        judge_eof(acc, api, kind, cuts, eof_at, execute(api, kind, chunks, budgeted=True), fault=fault)
    else:
        cuts = tuple(case[3]) if label != "bytes" else tuple(range(1, len(reply)))
        base = execute(api, kind, [reply])
        parts = split(reply, cuts)
        if label.endswith("+fin-with"):
            parts = parts[:-1] + [(parts[-1], None)]
        elif label.endswith("+fin-behind"):
            parts = parts + [None]
        judge_complete(acc, api, kind, cuts, base, execute(api, kind, parts), label)


def finish(tier, seed, merged) -> None:
    from mc.runner import Vacuous

    if merged.outcomes.get("complete:ok", 0) < 1000 and not merged.violation_count:
        raise Vacuous("no successfully reassembled replies")
