"""C13 — request framing: lengths, alignment, exactly the stub region is sealed; reply padding stripped exactly."""
from __future__ import annotations

import struct
import typing as t

from env import refdc, secctx, seams, transport
from mc import vloop
from ref import cms, dcerpc as rpc, gkdi

ID = "C13"
LEVEL = "model_checking"
RULE = (
    "request path: stub length 0..320 (every residue mod 16 twenty times) x verification trailer {off, the ISD_KEY PCONTEXT one, a 3-command one} x signature size {16,28,60,76} x header signing {negotiated, not} x "
    "{sync, async} through the real SyncRpcClient/AsyncRpcClient.request over a scripted transport with a recording security context (spnego.client seam); plus real NTLM on both ends for stub lengths 0..64. "
    "Oracle on the wire bytes W: frag_len == len(W), auth_len == signature size, 24-byte header with the asked opnum/context, alloc_hint == sealed region length; sealed region = stub | zero pad to 4 (only with a "
    "VT) | exactly the VT bytes | zero pad; security trailer at T=len(W)-sig-8 with (T-24)%16==0, pad_length == padding after stub(+VT), < 16, type/level/context as negotiated; the IOV handed to wrap_iov is "
    "[(sign_only iff header signing else data_readonly, W[0:24]), plaintext of W[24:T], (same, W[T:T+8]), header] with encrypt=True; header and trailer go out unmodified; the independent receiver unseals and "
    "recovers exactly stub and VT. reply path: reply stub 0..80 x pad_length 0..15 x signature size: unwrap_iov gets [W[0:24], W[24:T], W[T:T+8], W[T+8:]] and the caller sees exactly the sealed plaintext; through the "
    "public API GetKey replies with every pad 0..15 x 9 envelope lengths decode correctly when 16-aligned (else decode correctly or raise). state = one environment configuration; transition = one request/reply exchange."
)
ASSUME = ["ScriptedContext stands in for the GSS provider (records every IOV); real pyspnego NTLM for the second pass"]
BOUND = {"quick": "stub 0..320 x 3 VT x {16,76} + {28,60} for stub 0..47; reply 0..80 x 16 pads x 2 sizes", "thorough": "full product, sync and async"}

SIZES = [16, 28, 60, 76]


def vts():
    from dpapi_ng._gkdi import ISD_KEY
    from dpapi_ng._rpc import NDR64, CommandBitmask, CommandFlags, CommandHeader2, CommandPContext, DataRep, PacketType, VerificationTrailer

    one = VerificationTrailer([CommandPContext(flags=CommandFlags.SEC_VT_COMMAND_END, interface_id=ISD_KEY, transfer_syntax=NDR64)])
    three = VerificationTrailer([
        CommandBitmask(flags=CommandFlags.NONE, bits=1),
        CommandHeader2(flags=CommandFlags.SEC_VT_MUST_PROCESS_COMMAND, packet_type=PacketType.REQUEST, data_rep=DataRep(), call_id=1, context_id=0, opnum=0),
        CommandPContext(flags=CommandFlags.SEC_VT_COMMAND_END, interface_id=ISD_KEY, transfer_syntax=NDR64),
    ])
    return {"off": None, "isd": one, "three": three}


def ref_vt(name: str) -> bytes:
    if name == "off":
        return b""
    pc = rpc.vt_pcontext(rpc.ISD_KEY, rpc.NDR64, rpc.VT_END)
    if name == "isd":
        return rpc.enc_vt([pc])
    return rpc.enc_vt([(1, 0, struct.pack("<I", 1)), (3, rpc.VT_MUST, struct.pack("<B3x4sIHH", 0, rpc.DREP, 1, 0, 0)), pc])


class Peer:
    """bind -> bind_ack (one leg); request -> logs W, unseals independently, answers with a sealed response"""

    def __init__(self, mode: str, sig: int, sign: bool, reply_stub: bytes = b"OK", reply_pad: t.Optional[int] = None, reply_reserved: int = 0) -> None:
        self.mode, self.sig, self.sign = mode, sig, sign
        self.reply_reserved = reply_reserved  # auth_reserved octet of the reply trailer: zero on send by the letter, but ignored on receipt
        self.reply_stub, self.reply_pad = reply_stub, reply_pad
        self.requests: t.List[bytes] = []
        self.unsealed: t.List[t.Any] = []
        self.ctx: t.Any = None
        self.sign_header = False
        self.sealed_reply: t.Optional[bytes] = None
        self.reply_body = b""
        self.reply_bodies: t.List[bytes] = []
        self.auth_type = 10

    def connect(self, host, port):
        return self

    def feed(self, data: bytes) -> t.List[t.Optional[bytes]]:
        import spnego.iov as siov

        d = rpc.decode(data)
        if d["ptype"] == rpc.BIND:
            a = d["auth"]
            self.auth_type = a["type"]
            self.ctx = secctx.ntlm_server() if self.mode == "ntlm" else secctx.ScriptedContext(list(getattr(self, "server_tokens", [b"SRV1"])), getattr(self, "reply_sig", None) or self.sig, role="server")
            if getattr(self, "reply_sig", None) and self.mode != "ntlm":
                self.ctx.peer_sig_size = self.sig
            tok = self.ctx.step(a["token"])
            flags = 3
            if d["flags"] & rpc.PFC_SIGN and self.sign:
                flags |= rpc.PFC_SIGN
                self.sign_header = True
            res = [(0, 0, rpc.NDR64)] + [(3, 3, refdc.NIL)] * (len(d["contexts"]) - 1)
            return [rpc.enc_ack_like(rpc.BIND_ACK, flags, d["call_id"], res, dict(type=a["type"], level=a["level"], token=tok), b"49664\x00")]
        if d["ptype"] == rpc.ALTER_CONTEXT:
            a = d["auth"]
            tok = self.ctx.step(a["token"])
            flags = 3 | (rpc.PFC_SIGN if self.sign_header else 0)
            return [rpc.enc_ack_like(rpc.ALTER_CONTEXT_RESP, flags, d["call_id"], [(0, 0, rpc.NDR64)], dict(type=a["type"], level=a["level"], token=tok) if tok else None, b"")]
        if d["ptype"] == rpc.REQUEST:
            self.requests.append(data)
            a = d["auth"]
            ty = siov.BufferType.sign_only if self.sign_header else siov.BufferType.data_readonly
            if a is not None:
                t_off = a["offset"]
                try:
                    res = self.ctx.unwrap_iov([(ty, data[:24]), data[24:t_off], (ty, data[t_off : t_off + 8]), (siov.BufferType.header, a["token"])])
                    self.unsealed.append(res.buffers[1].data or b"")
                except Exception as e:  # noqa: BLE001
                    self.unsealed.append(e)
            # sealed reply
            pad = -len(self.reply_stub) % 16 if self.reply_pad is None else self.reply_pad
            body = self.reply_stub + b"\x00" * pad
            self.reply_body = body
            self.reply_bodies.append(body)
            sig_len = self.ctx.query_message_sizes().header
            total = 24 + len(body) + 8 + sig_len
            hdr = rpc.header(rpc.RESPONSE, 3, total, sig_len, d["call_id"]) + struct.pack("<IHBB", len(body), d["ctx_id"], 0, 0)
            trailer = struct.pack("<BBBBI", self.auth_type, 6, pad, self.reply_reserved, 0)
            res = self.ctx.wrap_iov([(ty, hdr), body, (ty, trailer), siov.BufferType.header], encrypt=True, qop=None)
            self.sealed_reply = hdr + (res.buffers[1].data or b"") + trailer + (res.buffers[3].data or b"")
            return [self.sealed_reply]
        return [None]


def contexts():
    from dpapi_ng._gkdi import ISD_KEY
    from dpapi_ng._rpc import NDR64, ContextElement, bind_time_feature_negotiation

    return [ContextElement(0, ISD_KEY, [NDR64]), ContextElement(1, ISD_KEY, [bind_time_feature_negotiation()])]


def exchange(api: str, peer: Peer, stub: bytes, vt, ctx_id: int = 0, opnum: int = 0):
    """-> (Response or exception, client context)"""
    from dpapi_ng._rpc import async_create_rpc_connection, create_rpc_connection

    user, pw = (secctx.NTLM_USER, secctx.NTLM_PASS) if peer.mode == "ntlm" else ("u", "p")

    def factory(u, p, **kw):
        legs = getattr(peer, "client_legs", 1)
        c_ = secctx.ScriptedContext([b"CLI%d" % (i + 1) for i in range(legs)], peer.sig, complete_after=getattr(peer, "client_complete_after", None))
        c_.fail_wrap_at = dict(getattr(peer, "client_wrap_failures", {}))
        c_.provisional_sig_size = getattr(peer, "client_provisional", None)
        c_.peer_sig_size = getattr(peer, "reply_sig", None)
        c_.strict_completion = True
        return c_

    import contextlib

    cm = secctx.scripted_client(factory) if peer.mode != "ntlm" else contextlib.nullcontext([])
    with transport.network(peer), cm as made:
        if api == "sync":
            c = create_rpc_connection("dc", 49664, username=user, password=pw, auth_protocol="ntlm")
            try:
                c.bind(contexts=contexts())
                if isinstance(stub, list) and getattr(peer, "client_wrap_failures", None):
                    r = []
                    for s_ in stub:  # a failing request does not end the sequence: the caller may go on using the connection
                        try:
                            r.append(c.request(ctx_id, opnum, s_, verification_trailer=vt))
                        except Exception as e_:  # noqa: BLE001
                            r.append(e_)
                elif isinstance(stub, list):
                    r = [c.request(ctx_id, opnum, s_, verification_trailer=vt) for s_ in stub]
                else:
                    r = c.request(ctx_id, opnum, stub, verification_trailer=vt)
            finally:
                c.close()
        else:

            async def go():
                c = await async_create_rpc_connection("dc", 49664, username=user, password=pw, auth_protocol="ntlm")
                try:
                    await c.bind(contexts=contexts())
                    if isinstance(stub, list) and getattr(peer, "client_wrap_failures", None):
                        r_ = []
                        for s_ in stub:
                            try:
                                r_.append(await c.request(ctx_id, opnum, s_, verification_trailer=vt))
                            except Exception as e_:  # noqa: BLE001
                                r_.append(e_)
                        return r_
                    if isinstance(stub, list):
                        return [await c.request(ctx_id, opnum, s_, verification_trailer=vt) for s_ in stub]
                    return await c.request(ctx_id, opnum, stub, verification_trailer=vt)
                finally:
                    await c.close()

            r = vloop.run(go())
        return r, (made[0] if made else None)


def check_request(acc, case, peer: Peer, cctx, stub: bytes, vt_name: str, ctx_id: int, opnum: int, index: t.Optional[int] = None) -> None:
    import spnego.iov as siov

    def bad(key: str, **detail):
        acc.violate("req." + key, case, detail, size=len(stub))

    if index is None and len(peer.requests) != 1:
        return bad("count", n=len(peer.requests))
    idx = index or 0
    if idx >= len(peer.requests):
        return bad("count", n=len(peer.requests))
    W = peer.requests[idx]
    sig = peer.sig if peer.mode != "ntlm" else 16
    frag, alen = struct.unpack("<HH", W[8:12])
    if frag != len(W):
        bad("frag_len", frag_len=frag, size=len(W))
    if alen != sig:
        return bad("auth_len", auth_len=alen, signature=sig)
    if W[0:2] != b"\x05\x00" or W[2] != 0 or W[3] & 3 != 3 or W[3] & 0x80:
        bad("header", header=W[:16].hex())
    alloc, cid, op = struct.unpack("<IHH", W[16:24])
    if (cid, op) != (ctx_id, opnum):
        bad("ctx-opnum", got=[cid, op])
    T = len(W) - sig - 8
    if T < 24 or (T - 24) % 16:
        return bad("trailer-alignment", T=T, region=T - 24)
    if alloc != T - 24:
        bad("alloc_hint", alloc_hint=alloc, region=T - 24)
    aty, lvl, pad, rsv, actx = struct.unpack("<BBBBI", W[T : T + 8])
    if (aty, lvl, rsv, actx) != (10, 6, 0, 0):
        bad("trailer-fields", trailer=W[T : T + 8].hex())
    plain = peer.unsealed[idx] if len(peer.unsealed) > idx else None
    if not isinstance(plain, (bytes, bytearray)):
        return bad("receiver-cannot-unseal", err=repr(plain))
    vtb = ref_vt(vt_name)
    gap = (-len(stub) % 4) if vtb else 0
    expect = stub + b"\x00" * gap + vtb
    exp_pad = -len(expect) % 16
    if pad != exp_pad or pad >= 16:
        bad("pad_length", pad_length=pad, expected=exp_pad)
    if bytes(plain) != expect + b"\x00" * exp_pad:
        bad("sealed-region", got=bytes(plain).hex()[:200], expected=(expect + b"\x00" * exp_pad).hex()[:200])
    if cctx is not None:
        if (index is None and len(cctx.wraps) != 1) or len(cctx.wraps) <= idx:
            return bad("wrap-count", n=len(cctx.wraps))
        wv = cctx.wraps[idx]
        ty = siov.BufferType.sign_only if peer.sign_header else siov.BufferType.data_readonly
        iov = wv["iov"]
        want = [(ty, W[:24]), (siov.BufferType.data, bytes(plain)), (ty, W[T : T + 8]), (siov.BufferType.header, None)]
        if len(iov) != 4 or [(a, b) for a, b in iov] != want or wv["encrypt"] is not True:
            bad("iov", got=[(str(a), None if b is None else b.hex()[:60]) for a, b in iov], encrypt=wv["encrypt"], sign_header=peer.sign_header)
        if secctx.xor(W[24:T]) != bytes(plain):
            bad("wire-not-what-context-produced")


def check_reply(acc, case, peer: Peer, cctx, r) -> None:
    import spnego.iov as siov

    def bad(key: str, **detail):
        acc.violate("reply." + key, case, detail, size=len(peer.reply_stub))

    if isinstance(r, Exception):
        return bad("exception", exc=repr(r))
    if bytes(r.stub_data) != peer.reply_body:
        bad("stub", got=bytes(r.stub_data).hex()[:120], sealed=peer.reply_body.hex()[:120])
    exp_pad = peer.reply_pad if peer.reply_pad is not None else -len(peer.reply_stub) % 16
    if r.sec_trailer is None or r.sec_trailer.pad_length != exp_pad:
        bad("pad_length", got=None if r.sec_trailer is None else r.sec_trailer.pad_length, expected=exp_pad)
    if cctx is not None:
        if len(cctx.unwraps) != 1:
            return bad("unwrap-count", n=len(cctx.unwraps))
        Wr = peer.sealed_reply
        T = len(Wr) - (getattr(peer, "reply_sig", None) or peer.sig) - 8  # the reply's own signature length (its auth_length)
        ty = siov.BufferType.sign_only if peer.sign_header else siov.BufferType.data_readonly
        want = [(ty, Wr[:24]), (siov.BufferType.data, Wr[24:T]), (ty, Wr[T : T + 8]), (siov.BufferType.header, Wr[T + 8 :])]
        if cctx.unwraps[0]["iov"] != want:
            bad("iov", got=[(str(a), None if b is None else b.hex()[:40]) for a, b in cctx.unwraps[0]["iov"]])


def shards(tier: str, seed: int):
    out = []
    apis = ("sync", "async")
    for api in apis:
        for sign in (True, False):
            for vt in ("off", "isd", "three"):
                for half in (0, 1):
                    out.append(["req", api, half, sign, vt])
        for sig in SIZES if tier == "thorough" else (16, 76):
            out.append(["reply", api, sig])
        out.append(["ntlm", api])
        out.append(["api-pad", api])
        for sig in (16, 60):
            for sign in (True, False):
                out.append(["seq", api, sig, sign])
                out.append(["fault", api, sig, sign])
        out.append(["provider-shapes", api])
    return out


def run_shard(shard, tier, seed, acc) -> None:
    seams.block_network()
    what, api = shard[0], shard[1]
    d = seams.Drbg(("C13", seed))
    n = 0
    if what == "req":
        _, _, half, sign, vt_name = shard
        vt = vts()[vt_name]
        # consecutive connections use different signature sizes (as NTLM vs Kerberos under one negotiate package would)
        plan = [(ln, sig) for ln in range(half, 321, 2) for sig in SIZES if tier == "thorough" or sig in (16, 76) or ln <= 47]
        for ln, sig in plan:
            stub = d.bytes(ln)
            peer = Peer("scripted", sig, sign)
            case = ["req", api, sig, sign, vt_name, ln]
            try:
                r, cctx = exchange(api, peer, stub, vt, 0, 7 if ln % 2 else 0)
            except Exception as e:  # noqa: BLE001
                acc.violate(f"req.exc.{type(e).__name__}", case, {"exc": repr(e)}, size=ln)
                n += 1
                continue
            check_request(acc, case, peer, cctx, stub, vt_name, 0, 7 if ln % 2 else 0)
            check_reply(acc, case, peer, cctx, r)
            n += 1
            acc.set_add("residues", ((24 + ln) % 16, vt_name))
        acc.sample({"api": api, "signature_sizes_interleaved": SIZES, "header_signing": sign, "verification_trailer": vt_name, "stub_lengths": "0..320"})
    elif what == "seq":
        _, _, sig, sign = shard
        for vt_name in ("off", "isd"):
            for a in range(16):
                for b in range(16):
                    stubs = [d.bytes(a), d.bytes(b + 16 * (a % 2)), d.bytes(a + 32)]
                    peer = Peer("scripted", sig, sign)
                    case = ["seq", api, sig, sign, vt_name, a, b]
                    try:
                        rs, cctx = exchange(api, peer, stubs, vts()[vt_name], 0, 0)
                    except Exception as e:  # noqa: BLE001
                        acc.violate(f"seq.exc.{type(e).__name__}", case, {"exc": repr(e)}, size=a + b)
                        n += 1
                        continue
                    for i, stub in enumerate(stubs):
                        check_request(acc, case + [i], peer, cctx, stub, vt_name, 0, 0, index=i)
                        if bytes(rs[i].stub_data) != peer.reply_bodies[i]:
                            acc.violate("seq.reply.stub", case + [i], {"got": bytes(rs[i].stub_data).hex()[:80]})
                    n += 1
        acc.sample({"api": api, "signature_size": sig, "three requests on one connection": "stub residues (a, b, a) for all a,b in 0..15"})
    elif what == "provider-shapes":
        # (a) a two-leg mechanism that reports a provisional (larger) signature size until the context is established: requests are framed
        #     with the size valid when they are sent; (b) a mechanism that yields an empty token while it is still waiting for the peer: the
        #     bind loop ends, but no request may leave unsealed - the call fails
        for sig in SIZES:
            for ln in (0, 1, 16, 33):
                for vt_name in ("off", "isd"):
                    stub = d.bytes(ln)
                    peer = Peer("scripted", sig, True)
                    # client: C1 -> (S1) C2 -> (S2) done; the context is established only after the SECOND server token
                    peer.client_legs, peer.client_complete_after, peer.client_provisional = 2, 2, 76
                    peer.server_tokens = [b"SRV1", b"SRV2"]
                    case = ["provider-shapes", api, "provisional", sig, ln, vt_name]
                    try:
                        r, cctx = exchange(api, peer, stub, vts()[vt_name], 0, 0)
                    except Exception as e:  # noqa: BLE001
                        acc.violate(f"provisional.exc.{type(e).__name__}", case, {"exc": repr(e)}, size=ln)
                        n += 1
                        continue
                    check_request(acc, case, peer, cctx, stub, vt_name, 0, 0)
                    check_reply(acc, case, peer, cctx, r)
                    n += 1
        # (c) a mechanism whose announced signature size is a MAXIMUM: the peer's replies carry shorter signatures (auth_length of the reply
        #     says how long) - the reply is located and verified by what it carries
        for sig in SIZES:
            for short in (4, 12, sig - 1):
                if not 0 < short < sig:
                    continue
                for ln in (0, 1, 16, 33):
                    stub = d.bytes(ln)
                    peer = Peer("scripted", sig, True)
                    peer.reply_sig = sig - short
                    case = ["provider-shapes", api, "shorter-reply-signature", sig, short, ln]
                    try:
                        r, cctx = exchange(api, peer, stub, vts()["isd"], 0, 0)
                    except Exception as e:  # noqa: BLE001
                        acc.violate(f"shorter-reply-signature.exc.{type(e).__name__}", case, {"exc": repr(e)}, size=ln)
                        n += 1
                        continue
                    check_request(acc, case, peer, cctx, stub, "isd", 0, 0)
                    check_reply(acc, case, peer, cctx, r)
                    n += 1
        for ln in (0, 5, 16):
            for vt_name in ("off", "isd"):
                peer = Peer("scripted", 16, True)
                peer.client_legs, peer.client_complete_after = 1, 2  # one token, then b"" while the context is still waiting for more
                case = ["provider-shapes", api, "unfinished", ln, vt_name]
                try:
                    r, cctx = exchange(api, peer, d.bytes(ln), vts()[vt_name], 0, 0)
                    acc.violate("unfinished-context.request-accepted", case, {"requests_on_the_wire": len(peer.requests)})
                except Exception:  # noqa: BLE001
                    acc.outcome("unfinished-context:refused")
                n += 1
                for w_ in peer.requests:
                    dd = rpc.decode(w_, strict=False)
                    if dd["auth"] is None or not isinstance(peer.unsealed[-1] if peer.unsealed else None, (bytes, bytearray)):
                        acc.violate("unfinished-context.request-sent-unsealed", case, {"auth": None if dd["auth"] is None else dd["auth"]["level"]})
        acc.sample({"api": api, "provider shapes": ["provisional signature size 76 until established", "empty token while unfinished"]})
    elif what == "fault":
        # a transient error of the security provider in the k-th wrap call: that request fails with the provider's error and is NOT
        # sent; every other request on the connection is framed and sealed exactly as without the failure
        _, _, sig, sign = shard
        lens = [44, 0, 17, 64, 3]
        for vt_name in ("off", "isd"):
            for k in range(len(lens)):
                for exc in ("ContextExpiredError", "OperationNotAvailableError"):
                    stubs = [d.bytes(ln) for ln in lens]
                    peer = Peer("scripted", sig, sign)
                    peer.client_wrap_failures = {k: exc}
                    case = ["fault", api, sig, sign, vt_name, k, exc]
                    try:
                        rs, cctx = exchange(api, peer, stubs, vts()[vt_name], 0, 0)
                    except Exception as e:  # noqa: BLE001
                        acc.violate(f"fault.exc.{type(e).__name__}", case, {"exc": repr(e)})
                        n += 1
                        continue
                    n += 1
                    if not isinstance(rs[k], Exception) or type(rs[k]).__name__ != exc:
                        acc.violate("fault.provider-error-not-surfaced", case, {"result": repr(rs[k])[:200], "requests_on_the_wire": len(peer.requests)})
                    sent = [s_ for i_, s_ in enumerate(stubs) if i_ != k]
                    if len(peer.requests) != len(sent):
                        acc.violate("fault.requests-on-the-wire", case, {"on_the_wire": len(peer.requests), "expected": len(sent)})
                        continue
                    if cctx is not None and len(cctx.wraps) == len(stubs):
                        cctx.wraps.pop(k)  # the call that raised
                    for i_, s_ in enumerate(sent):
                        check_request(acc, case + [i_], peer, cctx, s_, vt_name, 0, 0, index=i_)
                    acc.outcome("fault:contained")
        acc.sample({"api": api, "signature_size": sig, "header_signing": sign, "provider failure": "in wrap call k = 0..4 of 5 requests on one connection"})
    elif what == "reply":
        sig = shard[2]
        for ln in range(0, 81):
          for rsv in (0, 1, 0x80, 0xFF):
            for pad in range(16):
                if rsv and (ln + pad) % 16:
                    continue
                peer = Peer("scripted", sig, True, reply_stub=d.bytes(ln), reply_pad=pad, reply_reserved=rsv)
                case = ["reply", api, sig, ln, pad] + ([rsv] if rsv else [])
                try:
                    r, cctx = exchange(api, peer, b"req", None)
                except Exception as e:  # noqa: BLE001
                    if (ln + pad) % 16 == 0:
                        acc.violate(f"reply.exc.{type(e).__name__}", case, {"exc": repr(e)}, size=ln)
                    else:
                        acc.outcome("misaligned-reply-rejected")
                    n += 1
                    continue
                check_reply(acc, case, peer, cctx, r)
                n += 1
        acc.sample({"api": api, "signature_size": sig, "reply_stub": "0..80", "pad_length": "0..15"})
    elif what == "ntlm":
        secctx.ntlm_setup()
        for vt_name in ("off", "isd"):
            for ln in range(0, 65):
                stub = d.bytes(ln)
                peer = Peer("ntlm", 16, ln % 2 == 0)
                case = ["ntlm", api, vt_name, ln]
                try:
                    r, _ = exchange(api, peer, stub, vts()[vt_name])
                except Exception as e:  # noqa: BLE001
                    acc.violate(f"ntlm.exc.{type(e).__name__}", case, {"exc": repr(e)}, size=ln)
                    n += 1
                    continue
                check_request(acc, case, peer, None, stub, vt_name, 0, 0)
                check_reply(acc, case, peer, None, r)
                n += 1
        acc.sample({"api": api, "security_context": "real NTLM both ends", "stub_lengths": "0..64"})
    elif what == "api-pad":
        import dpapi_ng

        rk = seams.make_root(d, "SHA256")
        sid = "S-1-5-21-1-2-3-1104"
        for dl in range(0, 9):
            dom = "d" * dl
            blob = cms.ref_encrypt(rk, sid, b"c13", (361, 3, 5), cek=d.bytes(32), gcm_nonce_=d.bytes(12), key_nonce=d.bytes(32), domain=dom, forest=dom)
            variants = [(pad, "padded", 0) for pad in list(range(16)) + [None, 16, 28, 255]]
            variants += [(None, ah, fill) for ah in ("padded", "unpadded", "zero", "16", "max") for fill in (0, 0xE7)]
            variants += [(pad, ah, 0xE7) for pad in (0, 4, 8, 12, 20) for ah in ("unpadded", "16")]
            variants += [(None, "padded", 0, rsv) for rsv in (1, 0x80, 0xFF)]
            for pad, ah, fill, *more in variants:
                dc = refdc.DC([rk], now=(361, 10, 12), domain=dom, forest=dom)
                dc.reply_reserved = more[0] if more else 0
                dc.reply_pad = pad
                dc.reply_alloc_hint = ah
                dc.reply_pad_fill = fill
                case = ["api-pad", api, dl, pad, ah, fill] + list(more)
                with transport.network(dc), secctx.scripted_client(lambda u, p, **kw: secctx.ScriptedContext([b"C1"], 16)):
                    try:
                        kw = dict(server="dc", username="u", password="p", auth_protocol="ntlm")
                        v = dpapi_ng.ncrypt_unprotect_secret(blob, **kw) if api == "sync" else vloop.run(dpapi_ng.async_ncrypt_unprotect_secret(blob, **kw))
                        st = "ok"
                    except Exception as e:  # noqa: BLE001
                        st, v = "exc", e
                n += 1
                reply = [e for e in dc.transcript if e.get("what") == "getkey_reply"]
                aligned = bool(reply) and (len(reply[0]["plain_stub"]) + reply[0]["pad"]) % 16 == 0
                if st == "ok":
                    if bytes(v) != b"c13":
                        acc.violate("api-pad.wrong-result", case, {"got": repr(bytes(v))})
                    acc.outcome("api-pad:decoded")
                elif aligned and (pad is None or pad < 256):
                    acc.violate("api-pad.aligned-reply-rejected", case, {"exc": repr(v), "pad": reply[0]["pad"] if reply else None})
                else:
                    acc.outcome("api-pad:misaligned-rejected")
                if aligned:
                    acc.set_add("aligned_pads", reply[0]["pad"])
        # failing GetKey: the server's HRESULT reaches the caller whatever the auth padding looks like (length, fill, alloc_hint), and
        # different HRESULTs give different errors - the reply decoder sees the stub without the padding
        blob0 = cms.ref_encrypt(rk, sid, b"c13", (361, 3, 5), cek=d.bytes(32), gcm_nonce_=d.bytes(12), key_nonce=d.bytes(32), domain="d", forest="d")
        per_h: t.Dict[int, t.Set[t.Tuple[str, str]]] = {}
        for hres in (0x80070005, 0x80070002, 0x8009030C, 0x00000001, 0xC0000022):
            for pad, ah, fill in [(None, "padded", 0), (None, "padded", 0xE7), (28, "padded", 0), (28, "unpadded", 0xE7), (44, "zero", 0x01), (None, "16", 0xFF)]:
                dc = refdc.DC([rk], now=(361, 10, 12), domain="d", forest="d")
                dc.force_hresult, dc.reply_pad, dc.reply_alloc_hint, dc.reply_pad_fill = hres, pad, ah, fill
                case = ["api-pad-error", api, hres, pad, ah, fill]
                with transport.network(dc), secctx.scripted_client(lambda u, p, **kw: secctx.ScriptedContext([b"C1"], 16)):
                    try:
                        kw = dict(server="dc", username="u", password="p", auth_protocol="ntlm")
                        v = dpapi_ng.ncrypt_unprotect_secret(blob0, **kw) if api == "sync" else vloop.run(dpapi_ng.async_ncrypt_unprotect_secret(blob0, **kw))
                        acc.violate("api-pad-error.no-error", case, {"returned": repr(bytes(v))[:60]})
                        continue
                    except Exception as e:  # noqa: BLE001
                        per_h.setdefault(hres, set()).add((type(e).__name__, str(e)))
                n += 1
            if len(per_h.get(hres, ())) > 1:
                acc.violate("api-pad-error.depends-on-padding", ["api-pad-error", api, hres], {"outcomes": sorted(per_h[hres])[:4]})
        firsts = [sorted(v_)[0] for v_ in per_h.values() if v_]
        if len(set(firsts)) != len(firsts):
            acc.violate("api-pad-error.hresult-lost", ["api-pad-error", api, "all"], {"outcomes": firsts})
        acc.outcome("api-pad-error:judged")
        acc.sample({"api": api, "public API GetKey replies": "envelope lengths (domain 0..8) x pad_length 0..15,16,28,255"})
    acc.ev(n)
    acc.nt_counted(n)
    acc.states += n
    acc.transitions += n
    acc.outcome("exchanges", n)


def replay(case, seed, acc) -> None:
    seams.block_network()
    acc.ev()
    what, api = case[0], case[1]
    d = seams.Drbg(("C13", seed))
    if what == "req":
        _, _, sig, sign, vt_name, ln = case
        # replay the connection before it too (another signature size) so that cross-connection state is reproduced
        for sg_, l_ in ((76 if sig != 76 else 16, max(ln - 1, 0)), (sig, ln)):
            stub = seams.Drbg(("C13r", seed, l_)).bytes(l_)
            peer = Peer("scripted", sg_, sign)
            r, cctx = exchange(api, peer, stub, vts()[vt_name], 0, 7 if l_ % 2 else 0)
            check_request(acc, case, peer, cctx, stub, vt_name, 0, 7 if l_ % 2 else 0)
            check_reply(acc, case, peer, cctx, r)
    elif what == "reply":
        _, _, sig, ln, pad = case[:5]
        peer = Peer("scripted", sig, True, reply_stub=bytes(ln), reply_pad=pad, reply_reserved=case[5] if len(case) > 5 else 0)
        try:
            r, cctx = exchange(api, peer, b"req", None)
            check_reply(acc, case, peer, cctx, r)
        except Exception as e:  # noqa: BLE001
            if (ln + pad) % 16 == 0:
                acc.violate(f"reply.exc.{type(e).__name__}", case, {"exc": repr(e)})
    else:
        run_shard(["api-pad" if what == "api-pad-error" else what, api] + (list(case[2:4]) if what in ("seq", "fault") else []), "quick", seed, acc)
        for k in list(acc.violations):
            acc.violations[k] = [e for e in acc.violations[k] if e["case"] == case]
            if not acc.violations[k]:
                del acc.violations[k]
        acc.violation_count = sum(len(v) for v in acc.violations.values())


def calibrate() -> None:
    from mc.runner import HarnessError

    try:
        rpc.calibrate()
    except AssertionError as e:
        raise HarnessError(f"calibration failed: {e!r}") from e


def finish(tier, seed, merged) -> None:
    from mc.runner import Vacuous

    if merged.violation_count:
        return
    if len(merged.sets.get("residues", ())) < 48:
        raise Vacuous("not every (stub residue mod 16, VT) combination was exercised")
    if len(merged.sets.get("aligned_pads", ())) < 4:
        raise Vacuous("fewer than 4 distinct aligned reply paddings through the API")
