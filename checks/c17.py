"""C17 — online behaviour against a conforming DC: faithful requests, correct results, sync = async."""
from __future__ import annotations

import itertools
import typing as t

from env import refdc, secctx, seams, transport
from mc import vloop
from ref import cms, dcerpc as rpc, dtyp, epm, gkdi, ndr64

ID = "C17"
LEVEL = "model_checking"
RULE = (
    "every configuration runs the whole client stack (EPM bind + ept_map, ISD_KEY bind with authentication, sealed GetKey with verification trailer, reply decoding, en/decryption) against the in-process "
    "reference DC over the in-memory transport: blob position in {0,1,15,30,31}^2, DC 'now' in 5 positions (protect), 4 KDF hashes x reply kind {seed keys, DH, ECDH_P256, ECDH_P384 public key}, SID shapes n=1..15 "
    "(SD length residues), domain/forest name lengths 0..8 (reply length residues / auth padding 0,4,8,12), root key id {named, not named}, {sync, async on the virtual loop}; security context: real NTLM both ends "
    "and the scripted context (byte-exact sync/async comparison); shape of the conforming DC: L2 key omitted at L2'=31, covering policy {exact, later, end of L1}, alloc_hint convention, extra / non-zero auth padding, non-zero auth_reserved, header signing refused, dynamic port {1, 49664, 65535}, 1-2 authentication legs. quick: every configuration with at most two deviations from the base; each dimension varied around a base + full (hash x kind x op x api) product; thorough: full product of (position x hash x kind x api) with the "
    "others cycled. Oracle on the transcript decoded by the DC: connection 1 -> port 135, bind offers EPM/NDR64, ept_map (opnum 3) on the accepted context with a tower naming ISD_KEY over TCP/IP; connection 2 -> "
    "exactly the port the reply named, bind offers ISD_KEY/NDR64, auth type = NTLM, level PKT_PRIVACY; GetKey (opnum 0) on the accepted context whose unsealed stub == reference NDR64 encoding of "
    "(SD(sid), root key id|NULL, l0,l1,l2 of the blob | -1,-1,-1) followed at the 4-byte boundary by VT{PCONTEXT(ISD_KEY,NDR64),END}. Results: unprotect == plaintext (seed keys) / ValueError (public key); protect "
    "opens with the reference decryptor and names the DC's current key. sync and async: identical transcripts (scripted: identical bytes) and results. state = configuration; transition = one PDU exchange."
    ' Two further dimensions: the caller passes an empty KeyCache of its own; the DH ephemeral private key is chosen so that the shared secret begins with a zero octet.'
    ' Further dimensions: a DC without bind time feature negotiation, no server argument (SRV lookup through the DNS seam), the sync API called from inside a running event loop.'
)
ASSUME = ["reference DC = my reading of MS-GKDI / MS-RPCE, calibrated on the captured material", "pyspnego NTLM for the authenticated runs"]
BOUND = {}  # filled in below DEVIATIONS (the counts are taken from the table itself)

HASHES = ["SHA1", "SHA256", "SHA384", "SHA512"]
KINDS = ["seed", "DH", "ECDH_P256", "ECDH_P384"]
POSV = [0, 1, 15, 30, 31]
L0 = 361
PT = b"c17-plaintext"


def sid_n(n: int) -> str:
    if n == 0:
        return "S-1-1-0"  # Everyone: the SID the target SD's second ACE names anyway
    if n == -1:
        return "S-1-5-18"
    return "S-1-5-" + "-".join(str(21 + 1000 * i) for i in range(n))


class Cfg(t.NamedTuple):
    op: str
    api: str
    hash: str
    kind: str
    pos: t.Tuple[int, int]
    now: t.Tuple[int, int]
    nsub: int
    namelen: int
    named: bool
    sec: str
    sig: int = 16
    dc: t.Tuple[t.Tuple[str, t.Any], ...] = ()  # shape of the (conforming) DC: knob -> value, see env/refdc.py


# every way in which a conforming server, the caller's arguments or the key configuration may depart from the base configuration
DEVIATIONS: t.Dict[str, t.List[t.Any]] = {
    "op": ["protect"], "hash": ["SHA1", "SHA384", "SHA512"], "kind": ["DH", "ECDH_P256", "ECDH_P384"], "pos": [(0, 0), (31, 31), (0, 31), (31, 0), (15, 31)],
    "now": [(0, 0), (31, 31), (0, 31), (3, 31)], "nsub": [1, 15, 0, -1], "namelen": [0, 1, 8], "named": [False], "sec": ["ntlm"], "sig": [28, 76],
    "dc.l2_at_31": [False], "dc.cover": ["later", "l1end"], "dc.reply_alloc_hint": ["unpadded", "zero", "16", "max"], "dc.reply_pad_extra": [1], "dc.reply_pad_fill": [0xE7],
    "dc.reply_reserved": [0xFF], "dc.header_sign": [False], "dc.isd_port": [1, 65535, 5000, 99, 135 * 0 + 1025], "dc.server_legs": [2, 3, 4],
    "dc.env_flags": ["alt"],  # the other spelling of the envelope flags: 0 instead of 2 (seed keys), 3 instead of 1 (public key)
    "dc.name_style": ["unicode"],  # domain / forest names with non-ASCII and non-BMP characters
    "dc.forest": ["shorter", "longer"],
    "dc.btfn": [False],
    "dc.epm_list": ["np-first", "np-long-first", "np-both-sides"],  # the endpoint mapper lists other bindings of the interface (named pipe towers of other lengths) beside the TCP one
    "dc.server": ["lookup"],  # (client side) no server argument: the DC is found through the SRV lookup (answered by the DNS seam with this DC)
    "dc.caller": ["in-loop"],  # (client side) the SYNC api is called from code that runs inside an event loop (a coroutine, a web handler, a notebook cell)  # the DC (and its endpoint mapper) does not implement bind time feature negotiation
    "dc.eph": ["zlead"],
    "dc.cache": ["given", "warm"],  # (client side) the caller passes a KeyCache of its own - a new, empty one: the conversation is the same  # (client side, DH public-key mode) an ephemeral private key for which the shared secret Z = Y^x mod p begins with a zero octet  # a child domain / second tree: the forest name differs from the domain name (also in length)
}


_ND, _NV, _NDC = len(DEVIATIONS), sum(len(v) for v in DEVIATIONS.values()), sum(1 for k in DEVIATIONS if k.startswith("dc."))
BOUND.update({"quick": f"every configuration with <= 2 deviations from the base over {_ND} dimensions ({_ND - _NDC} of the caller / key configuration, {_NDC} of the conforming DC's shape and the calling environment; {_NV} alternative values) + (hash x kind x op x api) product", "thorough": f"<= 3 deviations over the same {_ND} dimensions; (25 positions x 4 hashes x 4 kinds x op x api), other dimensions cycled"})
_zlead: t.Dict[t.Any, bytes] = {}


def zlead_private(rk, sd: bytes, now) -> bytes:
    """octets for the ephemeral DH private key such that Y^x mod p has a leading zero octet (found by trying counter-mode candidates: 1 in 256)"""
    k = (rk.rkid, sd, now)
    if k not in _zlead:
        kl, p_, g_, y_ = gkdi.unpack_dh_key(gkdi.server_envelope(rk, sd, now[0], now[1], now[2], authorised=False)[-1])
        d = seams.Drbg(("C17zlead", str(rk.rkid), now))
        while True:
            xb = d.bytes(rk.priv_len // 8)
            if pow(y_, int.from_bytes(xb, "big"), p_) >> (8 * (kl - 1)) == 0:
                break
        _zlead[k] = xb
    return _zlead[k]


def deviate(c: Cfg, dim: str, val: t.Any) -> Cfg:
    if dim.startswith("dc."):
        return c._replace(dc=tuple(sorted(dict(c.dc, **{dim[3:]: val}).items())))
    return c._replace(**{dim: val})


BASE = Cfg("unprotect", "sync", "SHA256", "seed", (3, 5), (10, 12), 4, 11, True, "scripted")


def root_for(seed: int, h: str, kind: str) -> gkdi.RootKey:
    return seams.make_root(seams.Drbg(("C17", seed, h, kind)), h, "DH" if kind == "seed" else kind)


def run_cfg(seed: int, c: Cfg, _cache=None):
    import dpapi_ng

    rk = root_for(seed, c.hash, c.kind)
    sid = sid_n(c.nsub)
    dom = "d" * c.namelen
    d = seams.Drbg(("C17blob", seed, c.pos, c.nsub, c.namelen))
    now = (L0, c.now[0], c.now[1])
    shape = dict(c.dc)
    if shape.pop("name_style", None) == "unicode":
        dom = ("d\u00f6m\U0001d521in.t\u00ebst" * 2)[: c.namelen]
    fst = shape.pop("forest", None)
    forest = dom if fst is None else (dom[len(dom) // 2 + 1 :] or "f") if fst == "shorter" else "root." + dom
    eph = shape.pop("eph", None)
    own_cache = shape.pop("cache", None)
    via_lookup = shape.pop("server", None) == "lookup"
    in_loop = shape.pop("caller", None) == "in-loop"
    if shape.pop("env_flags", None) == "alt":
        shape["envelope_override"] = lambda e: e._replace(flags={2: 0, 1: 3}.get(e.flags, e.flags))
    dc = refdc.DC([rk], now=now if c.op == "protect" else (L0, 31, 31), authorised=c.kind == "seed", domain=dom, forest=forest, sec=c.sec, sig_size=c.sig,
                  cover=shape.pop("cover", "exact"), header_sign=shape.pop("header_sign", True), isd_port=shape.pop("isd_port", refdc.ISD_PORT))
    epm_list = shape.pop("epm_list", None)
    if epm_list:
        from ref import epm as _epm

        def _np(pipe: str, host: str):
            return [_epm.uuid_floor(refdc.rpc.ISD_KEY), _epm.uuid_floor(refdc.rpc.NDR), _epm.rpc_co_floor(0), (_epm.P_PIPE, b"", pipe.encode() + b"\x00"), (_epm.P_NETBIOS, b"", host.encode() + b"\x00")]

        tcp_ = _epm.tcpip_tower(refdc.rpc.ISD_KEY, refdc.rpc.NDR, dc.isd_port, 0xC0A83865)
        dc.epm_towers = {"np-first": [_np("\\pipe\\lsass", "\\\\DC01"), tcp_], "np-long-first": [_np("\\PIPE\\protected_storage", "\\\\DC-01"), _np("\\pipe\\x", "\\\\D"), tcp_],
                         "np-both-sides": [_np("\\pipe\\ab", "\\\\DC1"), tcp_, _np("\\pipe\\lsass", "\\\\DC01")]}[epm_list]
    legs = shape.get("server_legs", 1)
    for k_, v_ in shape.items():
        assert hasattr(dc, k_), k_
        setattr(dc, k_, v_)
    blob = cms.ref_encrypt(rk, sid, PT, (L0, c.pos[0], c.pos[1]), cek=d.bytes(32), gcm_nonce_=d.bytes(12), key_nonce=d.bytes(32), domain=dom, forest=forest)
    user, pw = (secctx.NTLM_USER, secctx.NTLM_PASS) if c.sec == "ntlm" else ("u", "p")
    kw = dict(server="dc.verif.test", username=user, password=pw, auth_protocol="ntlm")
    if own_cache:
        kw["cache"] = _cache if _cache is not None else dpapi_ng.KeyCache()
        if own_cache == "warm" and c.kind != "seed" and _cache is None:
            # the caller's cache has already been through one identical call against an identical DC (a public-key reply leaves nothing in
            # it that could serve a later call: the measured conversation is the same as on a new cache)
            run_cfg(seed, c, _cache=kw["cache"])
    if via_lookup:
        del kw["server"]
    ent = seams.Entropy(b"C17")
    if eph == "zlead" and c.kind == "DH" and c.op == "protect":
        ent.script_by_size[rk.priv_len // 8] = [zlead_private(rk, dtyp.target_sd(dtyp.parse_sid_string(sid)), now)]
    import contextlib

    def _client_ctx(u, p, **k):
        # a mechanism validates what it is fed: leg i must be the DC's token i, in order
        cx = secctx.ScriptedContext([b"C%d" % (i + 1) for i in range(legs)], c.sig)
        cx.expect_in = [None] + list(dc.server_tokens[:legs])
        cx.strict_completion = True
        return cx

    cm = secctx.scripted_client(_client_ctx) if c.sec == "scripted" else contextlib.nullcontext()
    import dns.asyncresolver
    import dns.resolver

    from checks import c20 as _c20

    rec_ = _c20.Recorder([(0, 100, 389, "dc.verif.test.")])
    dnscm = contextlib.ExitStack()
    if via_lookup:
        dnscm.enter_context(seams.patched(dns.resolver, "resolve", rec_.resolve))
        dnscm.enter_context(seams.patched(dns.asyncresolver, "resolve", rec_.aresolve))
    # the client's clock agrees with the DC's (the middle of the DC's current L2 interval): a conforming deployment is time-synchronised
    dc_now = now if c.op == "protect" else (L0, 31, 31)
    client_clock = seams.clock(((dc_now[0] * 1024) + dc_now[1] * 32 + dc_now[2]) * gkdi.B + gkdi.B // 2)
    with dnscm, transport.network(dc) as hub, cm, client_clock, seams.entropy(ent) if c.sec == "scripted" else contextlib.nullcontext():
        try:
            if c.op == "unprotect":
                f = dpapi_ng.ncrypt_unprotect_secret if c.api == "sync" else dpapi_ng.async_ncrypt_unprotect_secret
                mk_ = lambda: f(blob, **kw)  # noqa: E731
            else:
                f = dpapi_ng.ncrypt_protect_secret if c.api == "sync" else dpapi_ng.async_ncrypt_protect_secret
                mk_ = lambda: f(PT, sid, root_key_identifier=rk.rkid if c.named else None, **kw)  # noqa: E731
            if c.api == "sync" and in_loop:

                async def _inside():
                    return mk_()

                v = vloop.run(_inside())
            else:
                co = mk_()
                v = co if c.api == "sync" else vloop.run(co)
            res: t.Tuple[str, t.Any] = ("ok", bytes(v))
        except (transport.BlocksForever, transport.Spin, vloop.Deadlock) as e:
            res = ("blocks", repr(e))
        except Exception as e:  # noqa: BLE001
            res = ("exc", (type(e).__name__, str(e)[:100]))
        attempts = list(hub.attempts)
    return rk, sid, dc, res, attempts


def check_transcript(c: Cfg, rk, sid, dc: refdc.DC, res, attempts) -> t.List[t.Tuple[str, dict]]:
    out: t.List[t.Tuple[str, dict]] = []
    tr = dc.transcript
    if attempts != [("dc.verif.test", 135), ("dc.verif.test", dc.isd_port)]:
        out.append(("connections", {"attempts": attempts, "expected_port": dc.isd_port}))
        return out
    c2s = [e for e in tr if e["dir"] == "c2s"]
    epm_ev = [e for e in c2s if e["kind"] == "epm"]
    isd_ev = [e for e in c2s if e["kind"] == "isd"]
    # EPM conversation
    if [e["what"] for e in epm_ev] != ["bind", "request"]:
        out.append(("epm.sequence", {"pdus": [e["what"] for e in epm_ev]}))
        return out
    b = epm_ev[0]["pdu"]
    offered = [cid for cid, ab, trs in b["contexts"] if ab == rpc.EPM and rpc.NDR64 in trs]
    if not offered or b["auth"] is not None:
        out.append(("epm.bind", {"contexts": repr(b["contexts"])[:300]}))
    rq = epm_ev[1]["pdu"]
    em = epm_ev[1].get("ept_map")
    if rq["opnum"] != 3 or rq["ctx_id"] not in offered or em is None:
        out.append(("epm.request", {"opnum": rq["opnum"], "ctx": rq["ctx_id"], "error": epm_ev[1].get("ept_map_error")}))
    else:
        fl = em["floors"]
        if len(fl) < 5 or fl[0] != epm.uuid_floor(rpc.ISD_KEY) or fl[1][0] != epm.P_UUID or fl[2][0] != epm.P_RPC_CO or fl[3][0] != epm.P_TCP or fl[4][0] != epm.P_IP:
            out.append(("epm.tower", {"floors": repr(fl)[:300]}))
    # ISD_KEY conversation
    kinds = [e["what"] for e in isd_ev]
    if not kinds or kinds[0] != "bind" or kinds[-1] != "request" or any(k != "alter_context" for k in kinds[1:-1]):
        out.append(("isd.sequence", {"pdus": kinds}))
        return out
    ib = isd_ev[0]["pdu"]
    ioff = [cid for cid, ab, trs in ib["contexts"] if ab == rpc.ISD_KEY and rpc.NDR64 in trs]
    if not ioff:
        out.append(("isd.bind.contexts", {"contexts": repr(ib["contexts"])[:300]}))
    if ib["auth"] is None or ib["auth"]["type"] != 10 or ib["auth"]["level"] != 6:
        out.append(("isd.bind.auth", {"auth": None if ib["auth"] is None else [ib["auth"]["type"], ib["auth"]["level"]]}))
    ev = isd_ev[-1]
    rq = ev["pdu"]
    if rq["opnum"] != 0 or rq["ctx_id"] not in ioff or rq["auth"] is None or rq["auth"]["level"] != 6 or rq["auth"]["type"] != 10:
        out.append(("isd.request.fields", {"opnum": rq["opnum"], "ctx": rq["ctx_id"]}))
    if "getkey" not in ev:
        out.append(("isd.request.stub", {"error": ev.get("getkey_error") or ev.get("unseal_error") or ev.get("rejected"), "plain": (ev.get("plain") or b"")[:120].hex()}))
        return out
    sd = dtyp.target_sd(dtyp.parse_sid_string(sid))
    if c.op == "unprotect":
        want = ndr64.getkey_request(sd, rk.rkid, L0, c.pos[0], c.pos[1])
    else:
        want = ndr64.getkey_request(sd, rk.rkid if c.named else None, -1, -1, -1)
    if ev["stub"] != want:
        out.append(("isd.request.getkey-args", {"got": repr(ev["getkey"][1:]), "sd_matches": ev["getkey"][0] == sd, "expected": [c.op, c.named, c.pos]}))
    if ev.get("vt") != [rpc.vt_pcontext(rpc.ISD_KEY, rpc.NDR64, rpc.VT_END)]:
        out.append(("isd.request.verification-trailer", {"vt": repr(ev.get("vt"))[:200], "error": ev.get("vt_error")}))
    elif ev.get("vt_gap") != -len(want) % 4:
        out.append(("isd.request.vt-alignment", {"gap": ev.get("vt_gap")}))
    # results
    st, v = res
    if c.op == "unprotect":
        if c.kind == "seed":
            if st != "ok" or v != PT:
                out.append(("result.unprotect", {"result": repr(res)[:200]}))
        elif st != "exc" or v[0] != "ValueError":
            out.append(("result.unprotect-public-key-reply", {"result": repr(res)[:200]}))
    else:
        if st != "ok":
            out.append(("result.protect", {"result": repr(res)[:200]}))
        else:
            try:
                pt, cek, bl, kid = cms.ref_decrypt(rk, v, want_cek=True)
                if pt != PT or (kid.l0, kid.l1, kid.l2) != dc.now or kid.rkid != rk.rkid or bl.sid != sid or bool(kid.flags & 1) != (c.kind != "seed"):
                    out.append(("result.protect.blob", {"key_id": [kid.l0, kid.l1, kid.l2], "now": dc.now, "flags": kid.flags}))
                if kid.domain != dc.domain or kid.forest != dc.forest:
                    out.append(("result.protect.names", {"domain": kid.domain, "forest": kid.forest}))
            except Exception as e:  # noqa: BLE001
                out.append(("result.protect.unreadable", {"exc": repr(e)}))
    return out


def digest_transcript(dc: refdc.DC, exact: bool):
    out = []
    for e in dc.transcript:
        if e["dir"] != "c2s":
            continue
        if exact:
            out.append((e["conn"], e["what"], e["raw"]))
        else:
            d = e["pdu"]
            out.append((e["conn"], e["what"], d["flags"], repr(d.get("contexts")), d.get("opnum"), d.get("ctx_id"), e.get("stub") if "stub" in e else d.get("stub"), repr(e.get("vt"))))
    return out


def configs(tier: str) -> t.List[Cfg]:
    cs: t.List[Cfg] = []
    for h, k, op, sec in itertools.product(HASHES, KINDS, ("unprotect", "protect"), ("scripted", "ntlm")):
        cs.append(BASE._replace(hash=h, kind=k, op=op, sec=sec))
    for pos in itertools.product(POSV, POSV):
        cs.append(BASE._replace(pos=pos))
        cs.append(BASE._replace(op="protect", now=pos))
    for n in range(1, 16):
        cs.append(BASE._replace(nsub=n))
        cs.append(BASE._replace(nsub=n, op="protect", kind="ECDH_P256"))
    for nl in range(0, 9):
        for op in ("unprotect", "protect"):
            cs.append(BASE._replace(namelen=nl, op=op))
            cs.append(BASE._replace(namelen=nl, op=op, sec="ntlm"))
    for sg in (76, 16, 28, 60, 16):
        cs.append(BASE._replace(sig=sg))
        cs.append(BASE._replace(sig=sg, op="protect", kind="DH"))
    cs.append(BASE._replace(op="protect", named=False))
    cs.append(BASE._replace(op="protect", named=False, kind="DH"))
    # every configuration that departs from the base in at most two dimensions (all single deviations, all pairs)
    alts = [(dim, v) for dim, vals in DEVIATIONS.items() for v in vals if dim != "op"]
    for base in (BASE, BASE._replace(op="protect")):  # both operations; the operation does not count as a deviation
        for dim, v in alts:
            cs.append(deviate(base, dim, v))
        for (d1, v1), (d2, v2) in itertools.combinations(alts, 2):
            if d1 != d2:
                cs.append(deviate(deviate(base, d1, v1), d2, v2))
        if tier == "thorough":
            for (d1, v1), (d2, v2), (d3, v3) in itertools.combinations(alts, 3):
                if len({d1, d2, d3}) == 3:
                    cs.append(deviate(deviate(deviate(base, d1, v1), d2, v2), d3, v3))
    if tier == "thorough":
        i = 0
        for pos, h, k, op in itertools.product(itertools.product(POSV, POSV), HASHES, KINDS, ("unprotect", "protect")):
            i += 1
            cs.append(Cfg(op, "sync", h, k, pos, pos, 1 + i % 15, i % 9, bool(i % 2), "scripted" if i % 3 else "ntlm", [16, 76, 28, 60][i % 4]))
    seen = set()
    out = []
    for c in cs:
        if c not in seen:
            seen.add(c)
            out.append(c)
    return out


def shards(tier: str, seed: int):
    n = len(configs(tier))
    parts = 16 if tier == "quick" else 48
    return [["cfgs", p, parts] for p in range(parts)]


def judge(acc, seed: int, c: Cfg) -> None:
    runs = {}
    for api in ("sync", "async"):
        cc = c._replace(api=api)
        rk, sid, dc, res, attempts = run_cfg(seed, cc)
        case = ["cfg", list(cc)]
        acc.ev()
        acc.states += 1
        acc.transitions += len(dc.transcript)
        acc.nt(("cfg", tuple(cc)))
        for key, det in check_transcript(cc, rk, sid, dc, res, attempts):
            acc.violate(key, case, det)
        acc.outcome(f"{c.op}:{c.kind}:{res[0]}")
        pads = [e["pad"] for e in dc.transcript if e.get("what") == "getkey_reply"]
        for p in pads:
            acc.set_add("reply_pads", p)
        runs[api] = (digest_transcript(dc, c.sec == "scripted"), res if c.op == "unprotect" or c.sec == "scripted" else res[0])
    if runs["sync"][0] != runs["async"][0]:
        a, b = runs["sync"][0], runs["async"][0]
        i = next((i for i, (x, y) in enumerate(zip(a, b)) if x != y), min(len(a), len(b)))
        acc.violate("sync-async.transcripts-differ", ["cfg", list(c)], {"first_difference_at_pdu": i, "sync": repr(a[i] if i < len(a) else None)[:300], "async": repr(b[i] if i < len(b) else None)[:300]})
    if runs["sync"][1] != runs["async"][1]:
        acc.violate("sync-async.results-differ", ["cfg", list(c)], {"sync": repr(runs["sync"][1])[:200], "async": repr(runs["async"][1])[:200]})


def run_shard(shard, tier, seed, acc) -> None:
    seams.block_network()
    secctx.ntlm_setup()
    _, part, parts = shard
    cs = configs(tier)
    last = None
    for i, c in enumerate(cs):
        if i % parts == part and not acc.too_many():
            judge(acc, seed, c)
            last = c
    if last:
        acc.sample({"configuration": dict(last._asdict())})


def replay(case, seed, acc) -> None:
    seams.block_network()
    secctx.ntlm_setup()
    v = case[1]
    c = Cfg(v[0], v[1], v[2], v[3], tuple(v[4]), tuple(v[5]), v[6], v[7], v[8], v[9], v[10] if len(v) > 10 else 16, tuple((k_, v_) for k_, v_ in v[11]) if len(v) > 11 else ())
    if c.sec == "scripted":
        judge(acc, seed, c._replace(sig=76 if c.sig != 76 else 16))  # a connection with another signature size first (cross-connection state)
        acc.violations.clear()
        acc.violation_count = 0
    judge(acc, seed, c)


def calibrate() -> None:
    from mc.runner import HarnessError

    try:
        cms.calibrate()
        rpc.calibrate()
        epm.calibrate()
    except AssertionError as e:
        raise HarnessError(f"calibration failed: {e!r}") from e


def finish(tier, seed, merged) -> None:
    from mc.runner import Vacuous

    if merged.violation_count:
        return
    if len(merged.sets.get("reply_pads", ())) < 4:
        raise Vacuous("fewer than 4 distinct reply auth paddings occurred")
