#!/venv/bin/python
"""Generates MANIFEST.json from the table below + which checks/cNN.py exist and are enabled."""
import json
import os

V = os.path.dirname(os.path.dirname(os.path.abspath(__file__)))

# id -> (category, technique, text, note, design_ref)
T = {
    "C01": ("exploration", "exhaustive product enumeration of (length x SID x hash x agreement x clock edge x layout x API) on the real code vs independent reference decryptor",
            "Every cell of a finite product of boundary alphabets is protected and unprotected by the real code (sync and async), and each blob is additionally opened by an independent MS-GKDI/CMS decryptor calibrated on 16 Windows vectors.",
            "Reference models in /verif/ref (calibrated on tests/data); cryptography primitives; values outside the alphabets are covered by the small-scope argument only.", "3/C01"),
    "C02": ("exploration", "exhaustive enumeration of the 32^2 x 32^2 key lattice x envelope shapes on the real derivation code vs reference chain; step/KDF budget for non-termination",
            "All (envelope position, requested position) pairs are run through GroupKeyEnvelope.get_kek; covered pairs must equal the reference chain from the root key, non-covered pairs must raise within a KDF-call budget.",
            "ref/gkdi.py calibrated on the Windows vectors; KDF-call cap 80 and CPU backstop.", "3/C02"),
    "C03": ("exploration", "exhaustive enumeration of ephemeral private keys (all 2-byte DH exponents in small groups, EC scalars 1..N) x hashes x agreements with entropy as a chosen environment answer",
            "Encrypt-side KEK, decrypt-side KEK and an independent implementation agree for every enumerated (hash, agreement, ephemeral key, peer key), including all leading-zero shared secrets/coordinates in the enumerated range.",
            "os.urandom is the library's entropy source for ephemeral keys (seam); pure-Python P-256/P-384 reference checked against cryptography.", "3/C03"),
    "C04": ("fault_enumeration", "exhaustive single-bit-flip / truncation / deletion / insertion / header-byte substitution / flip-pair / secret-free forgery enumeration over valid blobs (up to 16 MiB), real unprotect with offline keys",
            "Every enumerated mutation of every base blob is decrypted by the real code; the outcome must be the original plaintext, an error, or an attempt to reach the network - never different bytes.",
            "Offline KeyCache holding the right root key; network seams raise.", "3/C04"),
    "C05": ("model_checking", "exhaustive mutation enumeration + all byte strings <=2 bytes under a deterministic interpreter-step and KDF-call budget (termination as safety)",
            "Each input is run through the real unprotect under a sys.monitoring line budget and a KDF-call cap; only the deliberate error types may escape.",
            "Step budget = 100000 + 100*len lines inside dpapi_ng; C-level time inside cryptography is not measured.", "3/C05"),
    "C06": ("exploration", "exhaustive product enumeration of blob values across every DER length-form boundary vs independent strict DER parser, Windows template and reference CMS encoder",
            "Every emitted / generated blob is parsed by an independent strict DER reader, matched against the template extracted from the Windows blobs, compared byte-for-byte with the reference encoder and round-tripped both ways.",
            "ref/der.py, ref/cms.py calibrated on the 17 captured blobs.", "3/C06"),
    "C07": ("exploration", "exhaustive enumeration (all INTEGERs of <=3 content octets, boundary products for OIDs/tags/lengths, all value trees depth<=3) vs independent strict DER codec",
            "Writer bytes equal the unique minimal DER encoding, reader returns the value and consumes exactly the TLV, for every enumerated value, tree and concatenation.",
            "ref/der.py (self-checked on X.690 examples). OIDs 2.x with x>=40 are outside the writer's documented domain.", "3/C07"),
    "C08": ("exploration", "exhaustive grid enumeration of SIDs and near-miss strings vs independent MS-DTYP parser/builder",
            "For every SID in the grid the SD bytes equal an independent MS-DTYP builder and parse back consistently; every near-miss string must raise ValueError.",
            "ref/dtyp.py calibrated on the real SD in tests/data/seed_key.json.", "3/C08"),
    "C09": ("exploration", "exhaustive enumeration of clock values around every kind of interval boundary (clock as environment seam) vs exact integer formula",
            "For every enumerated instant the blob names exactly the interval containing it and decrypts at that position with the reference decryptor.",
            "time.time_ns / time.time are the library's clock (seam).", "3/C09"),
    "C10": ("model_checking", "explicit-state exploration of all API operation histories up to a depth over a shared KeyCache (incl. histories mixing API flavours and callers) + all completion orders of concurrent async calls on a virtual event loop, against a reference DC",
            "Every history/schedule in the bound is executed on the real code; results must equal fresh-cache results and covered calls must make zero GetKey RPCs (reference model: max covered position per triple).",
            "Reference DC with scripted security context; virtual asyncio loop owns scheduling; bounded depth/alphabet.", "3/C10"),
    "C11": ("exploration", "exhaustive field-boundary product enumeration per MS-GKDI structure / NDR64 stub vs independent encoder, both directions",
            "pack() equals an independent encoder and unpack inverts it for every enumerated field combination, SD length residue and envelope length residue.",
            "ref/gkdi.py, ref/ndr64.py calibrated on captured structures.", "3/C11"),
    "C12": ("model_checking", "exhaustive well-formed message products (round-trip vs reference codec) + every prefix / count-field substitution under a step and allocation budget",
            "Round trip and reference equality for every enumerated well-formed message; every enumerated malformed input must finish inside a step budget proportional to its length.",
            "ref/dcerpc.py, ref/epm.py calibrated on PDUs captured in the test-suite; budget 50000+100*len lines.", "3/C12"),
    "C13": ("model_checking", "exhaustive enumeration of stub length x VT x signature size x header signing x API through the real client over a scripted transport and recording security context",
            "For every configuration the bytes on the wire satisfy the frame arithmetic, the recording security context saw exactly [header|stub+pad|trailer|token], and an independent receiver recovers the stub; reply padding is stripped exactly.",
            "spnego.client seam (ScriptedContext) plus real NTLM runs; in-memory transport.", "3/C13"),
    "C14": ("model_checking", "stateless exploration of all 1..3-chunk segmentations, all 2^15 header compositions, EOF at every offset and FIN with/behind the last segment over a scripted socket / real StreamReader on a virtual loop",
            "Every enumerated delivery schedule yields the same PDU as unsegmented delivery; every premature EOF yields an exception after at most 2 EOF reads within the step budget.",
            "FakeSocket/StreamReader seams model the kernel: a read returns 1..n available bytes, then EOF.", "3/C14"),
    "C15": ("model_checking", "deviation-bounded DFS over server reply scripts x scripted authentication providers on the real bind/request code; transcript invariants I1-I7 on every execution",
            "Every server script within the deviation bound is played against the real client with every provider shape; the token relay, stopping, context acceptance, header signing and fail-closed invariants are evaluated on each transcript.",
            "Scripted peer and provider cover the enumerated behaviours only.", "3/C15"),
    "C16": ("fault_enumeration", "exhaustive tampering enumeration (trailer removal, every bit flip, length-field edits, replays, forged trailers, rogue peers without the session key) of replies sealed by a real NTLM context and by a scripted context",
            "For every enumerated alteration of an authentic sealed reply the client must raise or hand back exactly the sealed plaintext; trailer-less replies must raise.",
            "pyspnego NTLM client+server in-process are the security context.", "3/C16"),
    "C17": ("model_checking", "exhaustive configuration product through the full client stack against an in-process reference DC (real NTLM and scripted context), sync and async on a virtual loop",
            "Each configuration's decoded transcript must match the reference request encoding, results must decrypt, and sync/async transcripts must be identical.",
            "Reference DC = my reading of MS-GKDI/MS-RPCE, calibrated on captured material.", "3/C17"),
    "C18": ("model_checking", "exhaustive tower-list enumeration over all length residues + adversarial count substitutions/prefixes under step and allocation budgets",
            "Well-formed replies must yield the first TCP port through the whole stack; every enumerated adversarial reply must finish within step/allocation budgets proportional to its size.",
            "ref/epm.py NDR64 encoder calibrated on the captured ept_map reply.", "3/C18"),
    "C19": ("model_checking", "explicit enumeration of all protect/unprotect histories up to a depth with entropy as a seam, of concurrent async calls, and of all schedules of two OS threads with a preemption bound under a controlled scheduler; pairwise-distinctness oracle on CEK, GCM nonce, key-id nonce",
            "In every history all CEKs, GCM nonces and key_infos recovered from the emitted blobs are pairwise distinct, under a never-repeating entropy source and under the real one.",
            "CEK recovered with the reference KEK; 2^-96 collision odds with real randomness.", "3/C19"),
    "C20": ("exploration", "exhaustive enumeration of every ordered SRV answer list of 1..5 records over 3x3 (priority, weight) with DNS as a scripted seam",
            "For every ordered answer list the selected record is lexicographically minimal in (priority, -weight), unchanged apart from the trailing dot, and sync = async; the query name/type/search flag are checked.",
            "dns.resolver.resolve / dns.asyncresolver.resolve are the library's DNS seam.", "3/C20"),
}


def main():
    enabled = []
    na = []
    for cid in sorted(T):
        if os.path.exists(os.path.join(V, "checks", cid.lower() + ".py")):
            enabled.append(cid)
        else:
            na.append({"property_id": cid, "reason": "check not built yet (work in progress in this session; design in DESIGN.md section 3)"})
    checks = []
    for cid in enabled:
        cat, tech, text, note, ref = T[cid]
        checks.append({
            "property_id": cid,
            "quick_cmd": f"./check {cid} --tier quick",
            "thorough_cmd": f"./check {cid} --tier thorough",
            "evidence_file": f"evidence/{cid}.json",
            "replay_cmd_template": f"./check {cid} --replay {{path}}",
            "engine": "mc",
            "level_claimed": {"category": cat, "text": text, "design_ref": f"DESIGN.md section {ref}"},
            "level_note": note,
            "technique": tech,
        })
    m = {
        "version": 1,
        "setup_cmd": "./check CALIBRATE",
        "hooks": {
            "guard": "DPAPI_NG_VERIF",
            "enable": "no source hooks: every seam is a stdlib/third-party attribute patched by the harness (socket.create_connection, asyncio.open_connection, spnego.client, dns.resolver.resolve, time.time_ns, os.urandom); checks import /repo/src directly",
            "baseline_off_cmd": "cd /repo && /venv/bin/python -m pytest -ra -q -p no:cacheprovider --timeout=900 --continue-on-collection-errors",
            "source_commits": [],
            "add_only": True,
        },
        "engines": [{
            "name": "mc",
            "path": "mc/",
            "serves_properties": enabled,
            "kind_free_text": "hand-written stateless explorer for the real Python code: product enumeration, deviation-bounded choice-point DFS, history BFS, virtual asyncio loop, deterministic interpreter-step budget; independent reference models in ref/, environment seams and reference DC in env/",
        }],
        "checks": checks,
        "not_applicable": na,
        "notes": "All checks run the real code in /repo/src (PYTHONPATH) with /venv/bin/python; exit 0/1 contract per brief; known_findings.json lists fixed/open genuine defects.",
    }
    with open(os.path.join(V, "MANIFEST.json"), "w") as f:
        json.dump(m, f, indent=1)
        f.write("\n")
    print("claimed:", enabled)


if __name__ == "__main__":
    main()
