#!/venv/bin/python
"""tools/seed_register.py  - copy confirmed sub-agent changes from /tmp/seed-out into /verif/seeded/<id>/ with meta.json"""
import json
import os
import shutil
import sys

ENTRIES = json.load(open(sys.argv[1]))
for e in ENTRIES:
    src = f"/tmp/seed-out/{e['property']}/{e['variant']}"
    sid = f"{e['property']}{e['variant']}"
    dst = f"/verif/seeded/{sid}"
    os.makedirs(dst, exist_ok=True)
    for f in ("patch.diff", "demo.py", "notes.md"):
        shutil.copy(os.path.join(src, f), os.path.join(dst, f))
    notes = open(os.path.join(src, "notes.md")).read().strip()
    meta = {
        "id": sid,
        "breaks_property": e["property"],
        "summary": e.get("summary") or notes[:700],
        "needs_to_manifest": e.get("needs") or "see notes.md (written by the author of the change)",
        "author": "independent sub-agent given only the property text and a scratch worktree",
        "confirmed": {
            "existing_test_suite_with_patch": "276 passed",
            "demo_with_patch": "exit 1",
            "demo_on_unmodified_tree": "exit 0",
            "how": "tools/seed_eval.sh: scratch copies of /repo under /tmp (removed afterwards), PYTHONPATH=<copy>/src",
        },
        "detected_by": e["detected_by"],
        "first_result": e["first_result"],
        "strengthening": e.get("strengthening", ""),
        "run": f"tools/seed_eval.sh {e['property']} {e['variant']}   (or: git -C /repo apply seeded/{sid}/patch.diff; ./check {e['property']}; git -C /repo checkout -- .)",
    }
    json.dump(meta, open(os.path.join(dst, "meta.json"), "w"), indent=1)
    print("registered", sid)
