#!/bin/sh
# tools/seed_one.sh <seeded-id> : one registered seeded change against the check of its property; prints CAUGHT / MISSED
here=$(cd "$(dirname "$0")/.." && pwd)
id=$1; cid=$(echo "$id" | cut -c1-3)
d=$(mktemp -d /tmp/verif-seedall.XXXXXX)
rsync -a --exclude .git --exclude __pycache__ /repo/ "$d/mut/"
if ! (cd "$d/mut" && patch -p1 -s < "$here/seeded/$id/patch.diff"); then echo "$id PATCH-DOES-NOT-APPLY"; rm -rf "$d"; exit 0; fi
out=$(VERIF_TARGET="$d/mut/src" VERIF_EVIDENCE_DIR="$d/evidence" timeout 1800 "$here/check" "$cid" --tier quick 2>&1); rc=$?
if echo "$out" | grep -q "^VIOLATION property=$cid"; then echo "$id CAUGHT rc=$rc $(echo "$out" | grep -m1 '^violation' | cut -c1-120)"; else echo "$id MISSED rc=$rc"; fi
rm -rf "$d"
