#!/bin/sh
# tools/mut.sh <patch.diff> <check ids...>   - run checks against a scratch copy of /repo with the patch applied
# (scratch copy under /tmp, removed afterwards; /repo is never touched)
set -e
patch=$(readlink -f "$1"); shift
d=$(mktemp -d /tmp/verif-mut.XXXXXX)
trap 'rm -rf "$d"' EXIT
rsync -a --exclude .git --exclude __pycache__ /repo/ "$d/repo/"
(cd "$d/repo" && patch -p1 -s < "$patch")
rc=0
for c in "$@"; do
  VERIF_TARGET="$d/repo/src" VERIF_EVIDENCE_DIR="$d/evidence" /verif/check "$c" --tier "${TIER:-quick}" 2>&1 | grep -E "VIOLATION|violations=|HARNESS|Vacuous|Error" | head -5 || true
done
