#!/venv/bin/python
"""tools/cov_table.py <quick log> <thorough log> : the table of DESIGN 9.3 from two runall.sh logs"""
import re
import sys


def parse(path):
    out = {}
    for line in open(path):
        m = re.match(r"(C\d\d) rc=(\d+) (\d+)s .*evaluations=(\d+)", line)
        if m:
            out[m.group(1)] = (int(m.group(2)), int(m.group(3)), int(m.group(4)))
    return out


def fmt(n):
    return f"{n / 1e6:.2f} M" if n >= 1e6 else f"{n / 1e3:.1f} k"


q, t_ = parse(sys.argv[1]), parse(sys.argv[2])
print("| id | quick: executions / wall | thorough: executions / wall |")
print("|---|---|---|")
for i in range(1, 21):
    c = f"C{i:02d}"
    a, b = q.get(c), t_.get(c)
    print(f"| {c} | {fmt(a[2])} / {a[1]} s | " + (f"{fmt(b[2])} / {b[1]} s |" if b else "- |"))
print(f"\nquick total {sum(v[1] for v in q.values())} s; thorough total {sum(v[1] for v in t_.values())} s; non-zero exit codes: {[c for c, v in list(q.items()) + list(t_.items()) if v[0]]}")
