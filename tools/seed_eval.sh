#!/bin/sh
# tools/seed_eval.sh <Cxx> <variant> [checks...]  - confirm a sub-agent's seeded change and run checks against it.
# Everything happens in a scratch copy under /tmp which is removed afterwards.
cid=$1; v=$2; shift 2
src=/tmp/seed-out/$cid/$v
[ -f "$src/patch.diff" ] || src=/verif/seeded/$cid$v
checks=${*:-$cid}
d=$(mktemp -d /tmp/verif-seed.XXXXXX)
trap 'rm -rf "$d"' EXIT
rsync -a --exclude .git --exclude __pycache__ /repo/ "$d/clean/"
rsync -a --exclude .git --exclude __pycache__ /repo/ "$d/mut/"
(cd "$d/mut" && patch -p1 -s < "$src/patch.diff") || { echo "PATCH DOES NOT APPLY"; exit 3; }
t=$(cd "$d/mut" && PYTHONPATH="$d/mut/src" /venv/bin/python -m pytest -q -p no:cacheprovider tests 2>&1 | tail -1)
(cd "$d" && PYTHONPATH="$d/mut/src" timeout 300 /venv/bin/python "$src/demo.py" >/dev/null 2>&1); dm=$?
(cd "$d" && PYTHONPATH="$d/clean/src" timeout 300 /venv/bin/python "$src/demo.py" >/dev/null 2>&1); dc=$?
echo "[$cid/$v] tests-with-patch: $t | demo with patch rc=$dm | demo on clean tree rc=$dc"
for c in $checks; do
  out=$(VERIF_TARGET="$d/mut/src" VERIF_EVIDENCE_DIR="$d/evidence" timeout 1800 /verif/check "$c" --tier "${TIER:-quick}" 2>&1); rc=$?
  echo "[$cid/$v] check $c rc=$rc $(echo "$out" | grep -E "^violation|VIOLATION|HARNESS|Vacuous" | head -2 | cut -c1-260)"
done
