#!/bin/sh
# tools/mut_all.sh : every hand-made mutant in /verif/mutants against the check its file name starts with (c10a.diff -> C10)
cd "$(dirname "$0")/.." || exit 2
for f in mutants/*.diff; do
  b=$(basename "$f" .diff)
  c=$(echo "$b" | cut -c1-3 | tr c C)
  out=$(tools/mut.sh "$f" "$c" 2>&1 | grep -v WARNING)
  if echo "$out" | grep -q "^VIOLATION"; then echo "$b CAUGHT by $c: $(echo "$out" | grep -m1 '^violation' | cut -c1-140)"; else echo "$b MISSED by $c: $(echo "$out" | head -2 | cut -c1-200)"; fi
done
