#!/bin/sh
# tools/runall.sh [tier] : every check once, summary line per check
cd "$(dirname "$0")/.." || exit 2
tier=${1:-quick}
bad=0
for c in C01 C02 C03 C04 C05 C06 C07 C08 C09 C10 C11 C12 C13 C14 C15 C16 C17 C18 C19 C20; do
  s=$(date +%s)
  out=$(./check $c --tier $tier 2>&1); rc=$?
  e=$(date +%s)
  echo "$c rc=$rc $((e-s))s $(echo "$out" | grep -E "^C[0-9]+ tier" | sed 's/evidence=.*//' | cut -c1-160)"
  if [ $rc -ne 0 ]; then bad=1; echo "$out" | grep -v "^C[0-9]* tier" | head -5; fi
done
exit $bad
