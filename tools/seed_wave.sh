#!/bin/sh
# tools/seed_wave.sh <variants...> : evaluate /tmp/seed-out/C??/<variant> for every property, one line each
for v in "$@"; do
  for d in /tmp/seed-out/C??/$v; do
    [ -f "$d/patch.diff" ] || continue
    cid=$(basename "$(dirname "$d")")
    /verif/tools/seed_eval.sh "$cid" "$v" 2>&1 | grep -v WARNING | awk -v id="$cid$v" '
      /tests-with-patch/ {t=$0; sub(/.*tests-with-patch: /,"",t)}
      /check C/ {c=$0; sub(/.*check /,"",c)}
      END {print id " | " t " | " substr(c,1,170)}'
  done
done
