#!/bin/sh
# tools/seed_all.sh [parallel] : re-run every registered seeded change (seeded/<id>/patch.diff) against the check of its property.
# One line per seed: CAUGHT / MISSED. Scratch copies under /tmp, removed afterwards.
cd "$(dirname "$0")/.." || exit 2
ls seeded | xargs -P "${1:-1}" -n 1 sh tools/seed_one.sh
