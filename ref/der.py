"""Independent strict DER (X.690) encoder / decoder. No import of dpapi_ng."""
from __future__ import annotations

import typing as t

UNIVERSAL, APPLICATION, CONTEXT, PRIVATE = 0, 1, 2, 3


class DerError(Exception):
    pass


def enc_base128(n: int) -> bytes:
    if n < 0:
        raise DerError("negative")
    out = [n & 0x7F]
    n >>= 7
    while n:
        out.append(0x80 | (n & 0x7F))
        n >>= 7
    return bytes(reversed(out))


def enc_len(n: int) -> bytes:
    if n < 0x80:
        return bytes([n])
    b = n.to_bytes((n.bit_length() + 7) // 8, "big")
    return bytes([0x80 | len(b)]) + b


def enc_ident(cls: int, constructed: bool, number: int) -> bytes:
    first = (cls << 6) | (0x20 if constructed else 0)
    if number < 31:
        return bytes([first | number])
    return bytes([first | 31]) + enc_base128(number)


def tlv(cls: int, constructed: bool, number: int, content: bytes) -> bytes:
    return enc_ident(cls, constructed, number) + enc_len(len(content)) + bytes(content)


def int_content(v: int) -> bytes:
    """minimal two's complement"""
    n = 1
    while True:
        try:
            return v.to_bytes(n, "big", signed=True)
        except OverflowError:
            n += 1


def enc_int(v: int, number: int = 2, cls: int = UNIVERSAL) -> bytes:
    return tlv(cls, False, number, int_content(v))


def oid_content(arcs: t.Sequence[int]) -> bytes:
    if len(arcs) < 2 or arcs[0] > 2 or (arcs[0] < 2 and arcs[1] > 39):
        raise DerError("bad oid")
    out = enc_base128(arcs[0] * 40 + arcs[1])
    for a in arcs[2:]:
        out += enc_base128(a)
    return out


def enc_oid(dotted: str) -> bytes:
    return tlv(UNIVERSAL, False, 6, oid_content([int(x) for x in dotted.split(".")]))


def enc_octets(b: bytes) -> bytes:
    return tlv(UNIVERSAL, False, 4, b)


def enc_utf8(s: str) -> bytes:
    return tlv(UNIVERSAL, False, 12, s.encode("utf-8"))


def enc_bool(v: bool) -> bytes:
    return tlv(UNIVERSAL, False, 1, b"\xff" if v else b"\x00")


def enc_seq(*items: bytes) -> bytes:
    return tlv(UNIVERSAL, True, 16, b"".join(items))


def enc_set(*items: bytes) -> bytes:
    return tlv(UNIVERSAL, True, 17, b"".join(items))


class Node(t.NamedTuple):
    cls: int
    constructed: bool
    number: int
    content: bytes
    children: t.Optional[t.Tuple["Node", ...]]  # parsed children for constructed nodes
    start: int  # offset of the identifier octet in the outermost buffer
    hdr: int  # header length
    end: int  # offset one past the content


def parse_one(buf: bytes, off: int = 0, base: int = 0, strict: bool = True) -> Node:
    """Parse exactly one TLV at buf[off:], strictly (DER): definite minimal lengths, minimal tag numbers."""
    start = off
    if off >= len(buf):
        raise DerError("empty")
    o1 = buf[off]
    off += 1
    cls = o1 >> 6
    constructed = bool(o1 & 0x20)
    number = o1 & 0x1F
    if number == 31:
        number = 0
        first = True
        while True:
            if off >= len(buf):
                raise DerError("truncated tag")
            b = buf[off]
            off += 1
            if first and b == 0x80:
                raise DerError("non-minimal tag number")
            first = False
            number = (number << 7) | (b & 0x7F)
            if not b & 0x80:
                break
        if strict and number < 31:
            raise DerError("high-tag form for small number")
    if off >= len(buf):
        raise DerError("truncated length")
    l0 = buf[off]
    off += 1
    if l0 < 0x80:
        length = l0
    elif l0 == 0x80:
        raise DerError("indefinite length")
    elif l0 == 0xFF:
        raise DerError("reserved length")
    else:
        n = l0 & 0x7F
        if off + n > len(buf):
            raise DerError("truncated length octets")
        lb = buf[off : off + n]
        off += n
        length = int.from_bytes(lb, "big")
        if strict and (lb[0] == 0 or length < 0x80):
            raise DerError("non-minimal length")
    if off + length > len(buf):
        raise DerError("truncated content")
    content = bytes(buf[off : off + length])
    children = None
    if constructed:
        kids = []
        p = off
        while p < off + length:
            k = parse_one(buf[: off + length], p, base, strict)
            kids.append(k)
            p = k.end - base
        children = tuple(kids)
    return Node(cls, constructed, number, content, children, base + start, off - start, base + off + length)


def parse_all(buf: bytes, strict: bool = True) -> t.List[Node]:
    out = []
    off = 0
    while off < len(buf):
        n = parse_one(buf, off, 0, strict)
        out.append(n)
        off = n.end
    return out


def dec_int(content: bytes, strict: bool = True) -> int:
    if not content:
        raise DerError("empty integer")
    if strict and len(content) > 1:
        if (content[0] == 0 and not content[1] & 0x80) or (content[0] == 0xFF and content[1] & 0x80):
            raise DerError("non-minimal integer")
    return int.from_bytes(content, "big", signed=True)


def dec_oid(content: bytes) -> str:
    if not content:
        raise DerError("empty oid")
    arcs: t.List[int] = []
    v = 0
    start = True
    for b in content:
        if start and b == 0x80:
            raise DerError("non-minimal arc")
        start = False
        v = (v << 7) | (b & 0x7F)
        if not b & 0x80:
            arcs.append(v)
            v = 0
            start = True
    if not start:
        raise DerError("truncated arc")
    first = arcs[0]
    if first < 40:
        head = [0, first]
    elif first < 80:
        head = [1, first - 40]
    else:
        head = [2, first - 80]
    return ".".join(str(x) for x in head + arcs[1:])


def walk(node: Node, path: t.Tuple[int, ...] = ()) -> t.Iterator[t.Tuple[t.Tuple[int, ...], Node]]:
    yield path, node
    if node.children:
        for i, c in enumerate(node.children):
            yield from walk(c, path + (i,))


def selfcheck() -> None:
    # X.690 worked examples
    assert enc_int(0) == bytes.fromhex("020100")
    assert enc_int(127) == bytes.fromhex("02017f")
    assert enc_int(128) == bytes.fromhex("02020080")
    assert enc_int(256) == bytes.fromhex("02020100")
    assert enc_int(-128) == bytes.fromhex("020180")
    assert enc_int(-129) == bytes.fromhex("0202ff7f")
    assert enc_int(-65536) == bytes.fromhex("0203ff0000")
    assert enc_oid("2.100.3") == bytes.fromhex("0603813403")
    assert enc_oid("1.2.840.113549.1.7.3") == bytes.fromhex("06092a864886f70d010703")
    assert enc_len(127) == b"\x7f" and enc_len(128) == b"\x81\x80" and enc_len(256) == b"\x82\x01\x00"
    assert enc_ident(2, True, 31) == b"\xbf\x1f" and enc_ident(0, False, 30) == b"\x1e"
    assert dec_oid(bytes.fromhex("813403")) == "2.100.3"
    n = parse_one(enc_seq(enc_int(5), enc_octets(b"ab")))
    assert n.children and dec_int(n.children[0].content) == 5 and n.children[1].content == b"ab"
    for bad in ("0202007f", "02820001 00", "3080 0000", "1f8001 00", "1f1e00"):
        try:
            parse_one(bytes.fromhex(bad.replace(" ", "")))
            node_ok = True
        except DerError:
            node_ok = False
        if bad == "0202007f":
            # header is fine, integer content is non-minimal
            try:
                dec_int(parse_one(bytes.fromhex(bad)).content)
                raise AssertionError("non-minimal int accepted")
            except DerError:
                pass
        else:
            assert not node_ok, bad
