"""Independent NDR64 encoding of the MS-GKDI GetKey request / response stubs."""
from __future__ import annotations

import struct
import typing as t
import uuid


class NdrError(Exception):
    pass


def pad(n: int, a: int) -> bytes:
    return b"\x00" * (-n % a)


def getkey_request(sd: bytes, rkid: t.Optional[uuid.UUID], l0: int, l1: int, l2: int, referent: int = 0x20000) -> bytes:
    out = struct.pack("<I", len(sd))  # cbTargetSD (ULONG)
    out += pad(len(out), 8)
    out += struct.pack("<Q", len(sd))  # conformance (max count) of the [ref] array
    out += sd
    out += pad(len(out), 8)
    if rkid is None:
        out += struct.pack("<Q", 0)
    else:
        out += struct.pack("<Q", referent) + rkid.bytes_le  # GUID is 4-aligned; 8-aligned here
    out += struct.pack("<iii", l0, l1, l2)
    return out


def parse_getkey_request(b: bytes) -> t.Tuple[bytes, t.Optional[uuid.UUID], int, int, int]:
    """strict parse; raises NdrError on any deviation"""
    if len(b) < 16:
        raise NdrError("short")
    cb = struct.unpack("<I", b[:4])[0]
    if b[4:8] != b"\x00" * 4:
        raise NdrError("alignment gap not zero")
    mx = struct.unpack("<Q", b[8:16])[0]
    if mx != cb:
        raise NdrError(f"conformance {mx} != cbTargetSD {cb}")
    p = 16 + cb
    if len(b) < p:
        raise NdrError("sd truncated")
    sd = bytes(b[16:p])
    g = -p % 8
    if b[p : p + g] != b"\x00" * g:
        raise NdrError("sd padding not zero")
    p += g
    if len(b) < p + 8:
        raise NdrError("pointer truncated")
    ref = struct.unpack("<Q", b[p : p + 8])[0]
    p += 8
    rk = None
    if ref:
        if len(b) < p + 16:
            raise NdrError("guid truncated")
        rk = uuid.UUID(bytes_le=bytes(b[p : p + 16]))
        p += 16
    if len(b) != p + 12:
        raise NdrError(f"length {len(b)} != {p + 12}")
    l0, l1, l2 = struct.unpack("<iii", b[p : p + 12])
    return sd, rk, l0, l1, l2


def getkey_response(envelope: t.Optional[bytes], hresult: int = 0, referent: int = 0x20000) -> bytes:
    if envelope is None:
        out = struct.pack("<I", 0)
        out += pad(len(out), 8) + struct.pack("<Q", 0)
    else:
        out = struct.pack("<I", len(envelope))
        out += pad(len(out), 8)
        out += struct.pack("<QQ", referent, len(envelope)) + envelope
    out += pad(len(out), 4)
    return out + struct.pack("<I", hresult)
