"""Independent DPAPI-NG blob model: RFC 5652 EnvelopedData/KEKRecipientInfo template, strict decode,
encode, and a reference encryptor/decryptor built on ref.gkdi. No import of dpapi_ng."""
from __future__ import annotations

import typing as t
import uuid

from cryptography.hazmat.primitives import keywrap
from cryptography.hazmat.primitives.ciphers.aead import AESGCM

from ref import der, dtyp, gkdi

OID_ENVELOPED = "1.2.840.113549.1.7.3"
OID_DATA = "1.2.840.113549.1.7.1"
OID_MS = "1.3.6.1.4.1.311.74.1"
OID_SID = "1.3.6.1.4.1.311.74.1.1"
OID_AES256_WRAP = "2.16.840.1.101.3.4.1.45"
OID_AES256_GCM = "2.16.840.1.101.3.4.1.46"


class CmsError(Exception):
    pass


class Blob(t.NamedTuple):
    keyid: bytes
    sid: str
    enc_cek: bytes
    enc_content: bytes
    content_params: t.Optional[bytes]  # raw DER of the GCM parameters (None = absent)
    in_envelope: bool = True
    cek_alg: str = OID_AES256_WRAP
    cek_params: t.Optional[bytes] = None
    content_alg: str = OID_AES256_GCM
    desc_type: str = "SID"
    desc_oid: str = OID_SID


def gcm_params(nonce: bytes, icv: int = 16) -> bytes:
    return der.enc_seq(der.enc_octets(nonce), der.enc_int(icv))


def protection_descriptor(desc_oid: str, desc_type: str, value: str) -> bytes:
    return der.enc_seq(der.enc_oid(desc_oid), der.enc_seq(der.enc_seq(der.enc_seq(der.enc_utf8(desc_type), der.enc_utf8(value)))))


def encode(b: Blob) -> bytes:
    kekid = der.enc_seq(der.enc_octets(b.keyid), der.enc_seq(der.enc_oid(OID_MS), protection_descriptor(b.desc_oid, b.desc_type, b.sid)))
    kekri = der.tlv(
        der.CONTEXT,
        True,
        2,
        der.enc_int(4) + kekid + der.enc_seq(der.enc_oid(b.cek_alg), b.cek_params or b"") + der.enc_octets(b.enc_cek),
    )
    eci_items = [der.enc_oid(OID_DATA), der.enc_seq(der.enc_oid(b.content_alg), b.content_params or b"")]
    if b.in_envelope and b.enc_content:
        eci_items.append(der.tlv(der.CONTEXT, False, 0, b.enc_content))
    enveloped = der.enc_seq(der.enc_int(2), der.enc_set(kekri), der.enc_seq(*eci_items))
    ci = der.enc_seq(der.enc_oid(OID_ENVELOPED), der.tlv(der.CONTEXT, True, 0, enveloped))
    return ci + (b"" if b.in_envelope else b.enc_content)


def _expect(n: der.Node, cls: int, constructed: bool, number: int, what: str) -> None:
    if (n.cls, n.constructed, n.number) != (cls, constructed, number):
        raise CmsError(f"{what}: tag ({n.cls},{n.constructed},{n.number}) != ({cls},{constructed},{number})")


def _kids(n: der.Node, count: t.Union[int, t.Tuple[int, ...]], what: str) -> t.Tuple[der.Node, ...]:
    assert n.children is not None
    counts = (count,) if isinstance(count, int) else count
    if len(n.children) not in counts:
        raise CmsError(f"{what}: {len(n.children)} children, expected {counts}")
    return n.children


def _oid(n: der.Node, what: str) -> str:
    _expect(n, 0, False, 6, what)
    return der.dec_oid(n.content)


def _int(n: der.Node, what: str) -> int:
    _expect(n, 0, False, 2, what)
    return der.dec_int(n.content)


def decode(data: bytes, template: bool = True) -> Blob:
    """Strict DER parse + (template=True) the exact layout of real NCryptProtectSecret output."""
    try:
        ci = der.parse_one(data)
    except der.DerError as e:
        raise CmsError(f"not strict DER: {e}") from e
    trailing = bytes(data[ci.end :])
    _expect(ci, 0, True, 16, "ContentInfo")
    ct, c0 = _kids(ci, 2, "ContentInfo")
    if _oid(ct, "contentType") != OID_ENVELOPED:
        raise CmsError("contentType")
    _expect(c0, der.CONTEXT, True, 0, "content [0]")
    (ed,) = _kids(c0, 1, "content [0]")
    _expect(ed, 0, True, 16, "EnvelopedData")
    ver, ris, eci = _kids(ed, 3, "EnvelopedData")
    if _int(ver, "EnvelopedData.version") != 2:
        raise CmsError("EnvelopedData.version != 2")
    _expect(ris, 0, True, 17, "recipientInfos")
    (ri,) = _kids(ris, 1, "recipientInfos")
    _expect(ri, der.CONTEXT, True, 2, "kekri")
    rver, kekid, kea, ek = _kids(ri, 4, "KEKRecipientInfo")
    if _int(rver, "KEKRecipientInfo.version") != 4:
        raise CmsError("KEKRecipientInfo.version != 4")
    _expect(kekid, 0, True, 16, "KEKIdentifier")
    kid, other = _kids(kekid, 2, "KEKIdentifier")
    _expect(kid, 0, False, 4, "keyIdentifier")
    _expect(other, 0, True, 16, "OtherKeyAttribute")
    oid_ms, pd = _kids(other, 2, "OtherKeyAttribute")
    if _oid(oid_ms, "keyAttrId") != OID_MS:
        raise CmsError("keyAttrId")
    _expect(pd, 0, True, 16, "protection descriptor")
    pd_oid, s1 = _kids(pd, 2, "protection descriptor")
    desc_oid = _oid(pd_oid, "descriptor type oid")
    _expect(s1, 0, True, 16, "pd.s1")
    (s2,) = _kids(s1, 1, "pd.s1")
    _expect(s2, 0, True, 16, "pd.s2")
    (s3,) = _kids(s2, 1, "pd.s2")
    _expect(s3, 0, True, 16, "pd.s3")
    u1, u2 = _kids(s3, 2, "pd.s3")
    _expect(u1, 0, False, 12, "pd type string")
    _expect(u2, 0, False, 12, "pd value string")
    _expect(kea, 0, True, 16, "keyEncryptionAlgorithm")
    kea_kids = _kids(kea, (1, 2), "keyEncryptionAlgorithm")
    cek_alg = _oid(kea_kids[0], "keyEncryptionAlgorithm.algorithm")
    cek_params = None
    if len(kea_kids) == 2:
        k = kea_kids[1]
        cek_params = bytes(data[k.start : k.end])
    _expect(ek, 0, False, 4, "encryptedKey")
    _expect(eci, 0, True, 16, "EncryptedContentInfo")
    eci_kids = _kids(eci, (2, 3), "EncryptedContentInfo")
    if _oid(eci_kids[0], "eci.contentType") != OID_DATA:
        raise CmsError("eci.contentType")
    cea = eci_kids[1]
    _expect(cea, 0, True, 16, "contentEncryptionAlgorithm")
    cea_kids = _kids(cea, (1, 2), "contentEncryptionAlgorithm")
    content_alg = _oid(cea_kids[0], "contentEncryptionAlgorithm.algorithm")
    content_params = None
    if len(cea_kids) == 2:
        k = cea_kids[1]
        content_params = bytes(data[k.start : k.end])
    if len(eci_kids) == 3:
        ec = eci_kids[2]
        _expect(ec, der.CONTEXT, False, 0, "encryptedContent [0]")
        if trailing:
            raise CmsError("content in envelope and trailing data")
        if not ec.content:
            raise CmsError("empty encryptedContent present")
        enc_content, in_env = ec.content, True
    else:
        enc_content, in_env = trailing, False
    if template:
        if cek_alg != OID_AES256_WRAP or cek_params is not None:
            raise CmsError("template: AES256-wrap with absent parameters expected")
        if content_alg != OID_AES256_GCM or content_params is None:
            raise CmsError("template: AES256-GCM with parameters expected")
        gp = der.parse_one(content_params)
        _expect(gp, 0, True, 16, "GCMParameters")
        gn, gi = _kids(gp, 2, "GCMParameters")
        _expect(gn, 0, False, 4, "aes-nonce")
        if len(gn.content) != 12 or _int(gi, "aes-ICVlen") != 16:
            raise CmsError("template: 12-byte nonce and ICVlen 16 expected")
        if len(ek.content) != 40:
            raise CmsError("template: 40-byte wrapped key expected")
        if desc_oid != OID_SID or u1.content != b"SID":
            raise CmsError("template: SID descriptor expected")
    return Blob(
        keyid=kid.content,
        sid=u2.content.decode("utf-8"),
        enc_cek=ek.content,
        enc_content=enc_content,
        content_params=content_params,
        in_envelope=in_env,
        cek_alg=cek_alg,
        cek_params=cek_params,
        content_alg=content_alg,
        desc_type=u1.content.decode("utf-8"),
        desc_oid=desc_oid,
    )


def gcm_nonce(b: Blob) -> bytes:
    assert b.content_params is not None
    gp = der.parse_one(b.content_params)
    assert gp.children
    return gp.children[0].content


# -- reference crypto -----------------------------------------------------------------------


def ref_kek(rk: gkdi.RootKey, sd: bytes, kid: gkdi.KeyId, chain: t.Optional[gkdi.Chain] = None) -> bytes:
    if not (0 <= kid.l1 <= 31 and 0 <= kid.l2 <= 31):
        raise CmsError("key position out of range")
    ch = chain or gkdi.chain_cached(rk.hash_name, rk.key, rk.rkid, sd, kid.l0)
    l2 = ch.l2(kid.l1, kid.l2)
    if kid.flags & 1:
        return gkdi.kek_public(rk.hash_name, l2, rk.secret_alg, rk.priv_len, kid.key_info)
    return gkdi.kek_nonce(rk.hash_name, l2, kid.key_info)


def ref_decrypt(rk: gkdi.RootKey, data: bytes, want_cek: bool = False, template: bool = True):
    b = decode(data, template=template)
    kid = gkdi.unpack_keyid(b.keyid)
    if kid.rkid != rk.rkid:
        raise CmsError("root key id mismatch")
    sd = dtyp.target_sd(dtyp.parse_sid_string(b.sid))
    kek = ref_kek(rk, sd, kid)
    cek = keywrap.aes_key_unwrap(kek, b.enc_cek)
    pt = AESGCM(cek).decrypt(gcm_nonce(b), b.enc_content, None)
    return (pt, cek, b, kid) if want_cek else pt


def ref_encrypt(
    rk: gkdi.RootKey,
    sid: str,
    plaintext: bytes,
    pos: t.Tuple[int, int, int],
    *,
    cek: bytes,
    gcm_nonce_: bytes,
    key_nonce: t.Optional[bytes] = None,
    ephemeral: t.Optional[int] = None,
    domain: str = "",
    forest: str = "",
    in_envelope: bool = True,
) -> bytes:
    """A blob exactly as a conforming implementation would emit it for key position pos."""
    l0, l1, l2 = pos
    sd = dtyp.target_sd(dtyp.parse_sid_string(sid))
    ch = gkdi.chain_cached(rk.hash_name, rk.key, rk.rkid, sd, l0)
    l2k = ch.l2(l1, l2)
    if ephemeral is None:
        assert key_nonce is not None
        kid = gkdi.KeyId(1, 2, l0, l1, l2, rk.rkid, key_nonce, domain, forest)
        kek = gkdi.kek_nonce(rk.hash_name, l2k, key_nonce)
    else:
        gpub = gkdi.group_public_key(rk.hash_name, l2k, rk.secret_alg, rk.params(), rk.priv_len)
        z, sh = gkdi.shared_secret(rk.secret_alg, ephemeral, gpub)
        kek = gkdi.kek_from_shared(rk.hash_name, z, sh)
        kid = gkdi.KeyId(1, 1, l0, l1, l2, rk.rkid, gkdi.public_key(rk.secret_alg, rk.params(), ephemeral), domain, forest)
    enc_cek = keywrap.aes_key_wrap(kek, cek)
    enc = AESGCM(cek).encrypt(gcm_nonce_, plaintext, None)
    return encode(Blob(gkdi.pack_keyid(kid), sid, enc_cek, enc, gcm_params(gcm_nonce_), in_envelope))


# -- calibration ----------------------------------------------------------------------------


def load_vectors() -> t.List[t.Tuple[str, gkdi.RootKey, bytes]]:
    import glob
    import json

    out = []
    for path in sorted(glob.glob("/repo/tests/data/kdf_*.json")):
        d = json.load(open(path))
        rk = gkdi.RootKey(
            rkid=uuid.UUID(d["RootKeyId"]),
            key=bytes.fromhex(d["RootKeyData"]),
            hash_name=gkdi.unpack_kdf_params(bytes.fromhex(d["KdfParameters"])),
            secret_alg=d["SecretAgreementAlgorithm"],
            secret_params=bytes.fromhex(d["SecretAgreementParameters"]),
            priv_len=d["PrivateKeyLength"],
            pub_len=d["PublicKeyLength"],
            version=d["Version"],
        )
        out.append((path.rsplit("/", 1)[1][:-5], rk, bytes.fromhex(d["Data"])))
    return out


def calibrate() -> t.List[str]:
    vecs = load_vectors()
    assert len(vecs) == 16, len(vecs)
    modes = set()
    for name, rk, data in vecs:
        pt, cek, b, kid = ref_decrypt(rk, data, want_cek=True)
        assert pt == b"\x00", (name, pt)
        assert encode(b) == data, name  # byte-for-byte re-encode
        assert gkdi.pack_keyid(kid) == b.keyid, name
        modes.add((rk.hash_name, rk.secret_alg if kid.flags & 1 else "nonce"))
    assert len(modes) == 16, modes
    raw = open("/repo/tests/data/dpapi_ng_blob", "rb").read()
    b = decode(raw)
    assert encode(b) == raw
    return [
        "cms+gkdi: 16 Windows vectors (4 hashes x nonce/DH/P256/P384) decrypt to 0x00 from the root key alone",
        "cms: 17 captured blobs strict-DER parse, match the template and re-encode byte-for-byte",
    ]
