"""Independent MS-GKDI reference: SP800-108 KDF, key chain, group keys, KEK, structure codecs.

Only hashlib / hmac / struct / int arithmetic (+ ref.ec). No import of dpapi_ng.
"""
from __future__ import annotations

import hashlib
import hmac
import struct
import typing as t
import uuid

from ref import ec

LABEL = "KDS service\0".encode("utf-16-le")
PUBKEY_CTX = "KDS public key\0".encode("utf-16-le")
B = 360000000000
EPOCH_FILETIME = 116444736000000000

HASHES = {"SHA1": hashlib.sha1, "SHA256": hashlib.sha256, "SHA384": hashlib.sha384, "SHA512": hashlib.sha512}

RFC5114_P = int(
    "87A8E61DB4B6663CFFBBD19C651959998CEEF608660DD0F25D2CEED4435E3B00E00DF8F1D61957D4FAF7DF4561B2AA30"
    "16C3D91134096FAA3BF4296D830E9A7C209E0C6497517ABD5A8A9D306BCF67ED91F9E6725B4758C022E0B1EF4275BF7B"
    "6C5BFC11D45F9088B941F54EB1E59BB8BC39A0BF12307F5C4FDB70C581B23F76B63ACAE1CAA6B7902D52526735488A0E"
    "F13C6D9A51BFA4AB3AD8347796524D8EF6A167B5A41825D967E144E5140564251CCACB83E6B486F6B3CA3F7971506026"
    "C0B857F689962856DED4010ABD0BE621C3A3960A54E710C375F26375D7014103A4B54330C198AF126116D2276E11715F"
    "693877FAD7EF09CADB094AE91E1A1597",
    16,
)
RFC5114_G = int(
    "3FB32C9B73134D0B2E77506660EDBD484CA7B18F21EF205407F4793A1A0BA12510DBC15077BE463FFF4FED4AAC0BB555"
    "BE3A6C1B0C6B47B1BC3773BF7E8C6F62901228F8C28CBB18A55AE31341000A650196F931C77A57F2DDF463E5E9EC144B"
    "777DE62AAAB8A8628AC376D282D6ED3864E67982428EBC831D14348F6F2F9193B5045AF2767164E1DFC967C1FB3F2E55"
    "A4BD1BFFE83B9C80D052B985D182EA0ADB2A3B7313D3FE14C8484B1E052588B9B7D2BBD2DF016199ECD06E1557CD0915"
    "B3353BBB64E0EC377FD028370DF92B52C7891428CDC67EB6184B523D1DB246C32F63078490F00EF8D647D148D4795451"
    "5E2327CFEF98C582664B4C0F6CC41659",
    16,
)


def kdf(hash_name: str, ki: bytes, label: bytes, context: bytes, nbytes: int) -> bytes:
    h = HASHES[hash_name]
    out = b""
    i = 1
    fixed = label + b"\x00" + context + struct.pack(">I", nbytes * 8)
    while len(out) < nbytes:
        out += hmac.new(ki, struct.pack(">I", i) + fixed, h).digest()
        i += 1
    return out[:nbytes]


def concat_kdf(hash_name: str, z: bytes, otherinfo: bytes, nbytes: int) -> bytes:
    h = HASHES[hash_name]
    out = b""
    i = 1
    while len(out) < nbytes:
        out += h(struct.pack(">I", i) + z + otherinfo).digest()
        i += 1
    return out[:nbytes]


def s32(v: int) -> bytes:
    return struct.pack("<i", v)


def ctx(rkid: uuid.UUID, l0: int, l1: int, l2: int) -> bytes:
    return rkid.bytes_le + s32(l0) + s32(l1) + s32(l2)


class Chain:
    """All L1 and L2 keys of one (root key, SD, L0, hash), computed lazily from the root key only."""

    def __init__(self, hash_name: str, root_key: bytes, rkid: uuid.UUID, sd: bytes, l0: int) -> None:
        self.h, self.rk, self.rkid, self.sd, self.l0 = hash_name, root_key, rkid, sd, l0
        self._l1: t.Dict[int, bytes] = {}
        self._l2: t.Dict[t.Tuple[int, int], bytes] = {}

    def l0_seed(self) -> bytes:
        return kdf(self.h, self.rk, LABEL, ctx(self.rkid, self.l0, -1, -1), 64)

    def l1(self, n: int) -> bytes:
        assert 0 <= n <= 31
        if n not in self._l1:
            if n == 31:
                self._l1[31] = kdf(self.h, self.l0_seed(), LABEL, ctx(self.rkid, self.l0, 31, -1) + self.sd, 64)
            else:
                self._l1[n] = kdf(self.h, self.l1(n + 1), LABEL, ctx(self.rkid, self.l0, n, -1), 64)
        return self._l1[n]

    def l2(self, n: int, m: int) -> bytes:
        assert 0 <= n <= 31 and 0 <= m <= 31
        if (n, m) not in self._l2:
            if m == 31:
                self._l2[(n, m)] = kdf(self.h, self.l1(n), LABEL, ctx(self.rkid, self.l0, n, 31), 64)
            else:
                self._l2[(n, m)] = kdf(self.h, self.l2(n, m + 1), LABEL, ctx(self.rkid, self.l0, n, m), 64)
        return self._l2[(n, m)]


_CHAINS: t.Dict[t.Tuple[t.Any, ...], Chain] = {}


def chain_cached(hash_name: str, root_key: bytes, rkid: uuid.UUID, sd: bytes, l0: int) -> Chain:
    """memoised Chain (pure function of its arguments); bounded"""
    k = (hash_name, root_key, rkid, sd, l0)
    c = _CHAINS.get(k)
    if c is None:
        if len(_CHAINS) > 512:
            _CHAINS.clear()
        c = _CHAINS[k] = Chain(hash_name, root_key, rkid, sd, l0)
    return c


# -- secret agreement --------------------------------------------------------------------


def utf16z(s: str) -> bytes:
    return (s + "\0").encode("utf-16-le")


def group_private_key(hash_name: str, l2key: bytes, secret_alg: str, private_key_length_bits: int) -> int:
    n = -(-private_key_length_bits // 8)
    return int.from_bytes(kdf(hash_name, l2key, LABEL, utf16z(secret_alg), n), "big")


def pack_dh_params(key_length: int, p: int, g: int) -> bytes:
    return struct.pack("<I", 12 + 2 * key_length) + b"DHPM" + struct.pack("<I", key_length) + p.to_bytes(key_length, "big") + g.to_bytes(key_length, "big")


def unpack_dh_params(b: bytes) -> t.Tuple[int, int, int]:
    total, magic, kl = struct.unpack("<I4sI", b[:12])
    assert magic == b"DHPM"
    return kl, int.from_bytes(b[12 : 12 + kl], "big"), int.from_bytes(b[12 + kl : 12 + 2 * kl], "big")


def pack_dh_key(key_length: int, p: int, g: int, y: int) -> bytes:
    return b"DHPB" + struct.pack("<I", key_length) + p.to_bytes(key_length, "big") + g.to_bytes(key_length, "big") + y.to_bytes(key_length, "big")


def unpack_dh_key(b: bytes) -> t.Tuple[int, int, int, int]:
    assert b[:4] == b"DHPB"
    kl = struct.unpack("<I", b[4:8])[0]
    f = [int.from_bytes(b[8 + i * kl : 8 + (i + 1) * kl], "big") for i in range(3)]
    return kl, f[0], f[1], f[2]


EC_MAGIC = {"P256": b"ECK1", "P384": b"ECK3", "P521": b"ECK5"}


def pack_ec_key(curve: str, key_length: int, x: int, y: int) -> bytes:
    return EC_MAGIC[curve] + struct.pack("<I", key_length) + x.to_bytes(key_length, "big") + y.to_bytes(key_length, "big")


def unpack_ec_key(b: bytes) -> t.Tuple[str, int, int, int]:
    curve = {v: k for k, v in EC_MAGIC.items()}[bytes(b[:4])]
    kl = struct.unpack("<I", b[4:8])[0]
    return curve, kl, int.from_bytes(b[8 : 8 + kl], "big"), int.from_bytes(b[8 + kl : 8 + 2 * kl], "big")


def pack_kdf_params(hash_name: str) -> bytes:
    n = utf16z(hash_name)
    return b"\x00\x00\x00\x00\x01\x00\x00\x00" + struct.pack("<I", len(n)) + b"\x00\x00\x00\x00" + n


def unpack_kdf_params(b: bytes) -> str:
    assert b[:8] == b"\x00\x00\x00\x00\x01\x00\x00\x00" and b[12:16] == b"\x00" * 4
    ln = struct.unpack("<I", b[8:12])[0]
    return b[16 : 16 + ln - 2].decode("utf-16-le")


ECDH_HASH = {"P256": "SHA256", "P384": "SHA384", "P521": "SHA512"}


def kek_from_shared(hash_name: str, z: bytes, secret_hash: str) -> bytes:
    other = utf16z("SHA512") + PUBKEY_CTX + LABEL
    secret = concat_kdf(secret_hash, z, other, HASHES[secret_hash]().digest_size)
    return kdf(hash_name, secret, LABEL, PUBKEY_CTX, 32)


def shared_secret(secret_alg: str, private: int, peer_key: bytes) -> t.Tuple[bytes, str]:
    """(Z fixed width, hash used by the concat KDF)"""
    if secret_alg == "DH":
        kl, p, g, y = unpack_dh_key(peer_key)
        return pow(y, private, p).to_bytes(kl, "big"), "SHA256"
    curve, kl, x, y = unpack_ec_key(peer_key)
    c = ec.CURVES[curve]
    pt = ec.mul(c, private, (x, y))
    assert pt is not None
    return pt[0].to_bytes(c.size, "big"), ECDH_HASH[curve]


def public_key(secret_alg: str, secret_params: bytes, private: int, public_key_length_bits: int = 0) -> bytes:
    if secret_alg == "DH":
        kl, p, g = unpack_dh_params(secret_params)
        return pack_dh_key(kl, p, g, pow(g, private, p))
    curve = secret_alg.split("_")[1]
    c = ec.CURVES[curve]
    pt = ec.mul(c, private, c.g)
    assert pt is not None
    return pack_ec_key(curve, c.size, pt[0], pt[1])


def kek_nonce(hash_name: str, l2key: bytes, nonce: bytes) -> bytes:
    return kdf(hash_name, l2key, LABEL, nonce, 32)


def kek_public(hash_name: str, l2key: bytes, secret_alg: str, private_key_length_bits: int, peer_key: bytes) -> bytes:
    """decrypt side: group private key from the L2 seed, peer = ephemeral public key in the blob"""
    x = group_private_key(hash_name, l2key, secret_alg, private_key_length_bits)
    z, sh = shared_secret(secret_alg, x, peer_key)
    return kek_from_shared(hash_name, z, sh)


def group_public_key(hash_name: str, l2key: bytes, secret_alg: str, secret_params: bytes, private_key_length_bits: int) -> bytes:
    x = group_private_key(hash_name, l2key, secret_alg, private_key_length_bits)
    return public_key(secret_alg, secret_params, x)


# -- structures ----------------------------------------------------------------------------


class Envelope(t.NamedTuple):
    version: int
    flags: int
    l0: int
    l1: int
    l2: int
    rkid: uuid.UUID
    kdf_alg: str
    kdf_params: bytes
    secret_alg: str
    secret_params: bytes
    priv_len: int
    pub_len: int
    domain: str
    forest: str
    l1_key: bytes
    l2_key: bytes


def pack_envelope(e: Envelope) -> bytes:
    ka, sa, dn, fn = utf16z(e.kdf_alg), utf16z(e.secret_alg), utf16z(e.domain), utf16z(e.forest)
    u = lambda v: struct.pack("<I", v)  # noqa: E731
    return b"".join(
        [
            u(e.version), b"KDSK", u(e.flags), u(e.l0), u(e.l1), u(e.l2), e.rkid.bytes_le,
            u(len(ka)), u(len(e.kdf_params)), u(len(sa)), u(len(e.secret_params)), u(e.priv_len), u(e.pub_len),
            u(len(e.l1_key)), u(len(e.l2_key)), u(len(dn)), u(len(fn)),
            ka, e.kdf_params, sa, e.secret_params, dn, fn, e.l1_key, e.l2_key,
        ]
    )


def unpack_envelope(b: bytes) -> Envelope:
    f = struct.unpack("<I4sIIII", b[:24])
    assert f[1] == b"KDSK"
    rkid = uuid.UUID(bytes_le=bytes(b[24:40]))
    (kal, kpl, sal, spl, priv, pub, l1l, l2l, dl, fl) = struct.unpack("<10I", b[40:80])
    p = 80
    out = []
    for ln in (kal, kpl, sal, spl, dl, fl, l1l, l2l):
        out.append(bytes(b[p : p + ln]))
        p += ln
    assert p == len(b), "trailing data in envelope"
    z = lambda x: x[:-2].decode("utf-16-le")  # noqa: E731
    return Envelope(f[0], f[2], f[3], f[4], f[5], rkid, z(out[0]), out[1], z(out[2]), out[3], priv, pub, z(out[4]), z(out[5]), out[6], out[7])


class KeyId(t.NamedTuple):
    version: int
    flags: int
    l0: int
    l1: int
    l2: int
    rkid: uuid.UUID
    key_info: bytes
    domain: str
    forest: str


def pack_keyid(k: KeyId) -> bytes:
    dn, fn = utf16z(k.domain), utf16z(k.forest)
    u = lambda v: struct.pack("<I", v)  # noqa: E731
    return b"".join([u(k.version), b"KDSK", u(k.flags), u(k.l0), u(k.l1), u(k.l2), k.rkid.bytes_le, u(len(k.key_info)), u(len(dn)), u(len(fn)), k.key_info, dn, fn])


def unpack_keyid(b: bytes) -> KeyId:
    f = struct.unpack("<I4sIIII", b[:24])
    assert f[1] == b"KDSK", "key id magic"
    rkid = uuid.UUID(bytes_le=bytes(b[24:40]))
    kil, dl, fl = struct.unpack("<3I", b[40:52])
    p = 52
    ki = bytes(b[p : p + kil])
    p += kil
    dn = bytes(b[p : p + dl])
    p += dl
    fn = bytes(b[p : p + fl])
    p += fl
    assert p == len(b), "trailing data in key id"
    return KeyId(f[0], f[2], f[3], f[4], f[5], rkid, ki, dn[:-2].decode("utf-16-le"), fn[:-2].decode("utf-16-le"))


# -- what a conforming server returns ----------------------------------------------------------


class RootKey(t.NamedTuple):
    rkid: uuid.UUID
    key: bytes
    hash_name: str
    secret_alg: str = "DH"
    secret_params: bytes = b""
    priv_len: int = 512
    pub_len: int = 2048
    version: int = 1

    def params(self) -> bytes:
        if self.secret_alg == "DH" and not self.secret_params:
            return pack_dh_params(256, RFC5114_P, RFC5114_G)
        return self.secret_params


def server_envelope(
    rk: RootKey,
    sd: bytes,
    l0: int,
    l1: int,
    l2: int,
    *,
    authorised: bool = True,
    domain: str = "",
    forest: str = "",
    with_l2_at_31: bool = True,
    chain: t.Optional[Chain] = None,
) -> Envelope:
    """MS-GKDI 2.2.4 envelope for position (l0, l1, l2)."""
    ch = chain or Chain(rk.hash_name, rk.key, rk.rkid, sd, l0)
    if not authorised:
        pub = group_public_key(rk.hash_name, ch.l2(l1, l2), rk.secret_alg, rk.params(), rk.priv_len)
        return Envelope(rk.version, 1, l0, l1, l2, rk.rkid, "SP800_108_CTR_HMAC", pack_kdf_params(rk.hash_name), rk.secret_alg, rk.params(), rk.priv_len, rk.pub_len, domain, forest, b"", pub)
    if l2 == 31:
        l1k = ch.l1(l1)
        l2k = ch.l2(l1, 31) if with_l2_at_31 else b""
    else:
        l1k = ch.l1(l1 - 1) if l1 > 0 else b""
        l2k = ch.l2(l1, l2)
    return Envelope(rk.version, 2, l0, l1, l2, rk.rkid, "SP800_108_CTR_HMAC", pack_kdf_params(rk.hash_name), rk.secret_alg, rk.params(), rk.priv_len, rk.pub_len, domain, forest, l1k, l2k)


def interval(t_filetime: int) -> t.Tuple[int, int, int]:
    return (t_filetime // (1024 * B), (t_filetime // (32 * B)) % 32, (t_filetime // B) % 32)


def covers(have: t.Tuple[int, int], want: t.Tuple[int, int]) -> bool:
    return have >= want


def calibrate() -> t.List[str]:
    out = list(ec.calibrate())
    raw = open("/repo/tests/data/group_key_envelope", "rb").read()
    e = unpack_envelope(raw)
    assert pack_envelope(e) == raw and e.kdf_alg == "SP800_108_CTR_HMAC"
    assert unpack_kdf_params(e.kdf_params) in HASHES and pack_kdf_params(unpack_kdf_params(e.kdf_params)) == e.kdf_params
    raw = open("/repo/tests/data/ffc_dh_parameters", "rb").read()
    kl, p, g = unpack_dh_params(raw)
    assert pack_dh_params(kl, p, g) == raw and (p, g) == (RFC5114_P, RFC5114_G)
    raw = open("/repo/tests/data/ffc_dh_key", "rb").read()
    assert pack_dh_key(*unpack_dh_key(raw)) == raw
    raw = open("/repo/tests/data/ecdh_key", "rb").read()
    c, kl, x, y = unpack_ec_key(raw)
    assert pack_ec_key(c, kl, x, y) == raw and ec.on_curve(ec.CURVES[c], (x, y))
    out.append("gkdi: captured group_key_envelope / ffc_dh_parameters / ffc_dh_key / ecdh_key re-encode byte-for-byte")
    return out
