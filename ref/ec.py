"""Minimal short-Weierstrass arithmetic for P-256 / P-384 (reference only; affine, a = -3)."""
from __future__ import annotations

import typing as t

Point = t.Optional[t.Tuple[int, int]]  # None = infinity


class Curve(t.NamedTuple):
    name: str
    p: int
    b: int
    n: int
    gx: int
    gy: int
    size: int  # coordinate width in bytes

    @property
    def g(self) -> Point:
        return (self.gx, self.gy)


P256 = Curve(
    "P256",
    0xFFFFFFFF00000001000000000000000000000000FFFFFFFFFFFFFFFFFFFFFFFF,
    0x5AC635D8AA3A93E7B3EBBD55769886BC651D06B0CC53B0F63BCE3C3E27D2604B,
    0xFFFFFFFF00000000FFFFFFFFFFFFFFFFBCE6FAADA7179E84F3B9CAC2FC632551,
    0x6B17D1F2E12C4247F8BCE6E563A440F277037D812DEB33A0F4A13945D898C296,
    0x4FE342E2FE1A7F9B8EE7EB4A7C0F9E162BCE33576B315ECECBB6406837BF51F5,
    32,
)
P384 = Curve(
    "P384",
    0xFFFFFFFFFFFFFFFFFFFFFFFFFFFFFFFFFFFFFFFFFFFFFFFFFFFFFFFFFFFFFFFEFFFFFFFF0000000000000000FFFFFFFF,
    0xB3312FA7E23EE7E4988E056BE3F82D19181D9C6EFE8141120314088F5013875AC656398D8A2ED19D2A85C8EDD3EC2AEF,
    0xFFFFFFFFFFFFFFFFFFFFFFFFFFFFFFFFFFFFFFFFFFFFFFFFC7634D81F4372DDF581A0DB248B0A77AECEC196ACCC52973,
    0xAA87CA22BE8B05378EB1C71EF320AD746E1D3B628BA79B9859F741E082542A385502F25DBF55296C3A545E3872760AB7,
    0x3617DE4A96262C6F5D9E98BF9292DC29F8F41DBD289A147CE9DA3113B5F0B8C00A60B1CE1D7E819D7A431D7C90EA0E5F,
    48,
)
CURVES = {"P256": P256, "P384": P384}


def on_curve(c: Curve, pt: Point) -> bool:
    if pt is None:
        return True
    x, y = pt
    return (y * y - (x * x * x - 3 * x + c.b)) % c.p == 0


def add(c: Curve, a: Point, b: Point) -> Point:
    if a is None:
        return b
    if b is None:
        return a
    x1, y1 = a
    x2, y2 = b
    if x1 == x2:
        if (y1 + y2) % c.p == 0:
            return None
        lam = (3 * x1 * x1 - 3) * pow(2 * y1, -1, c.p) % c.p
    else:
        lam = (y2 - y1) * pow(x2 - x1, -1, c.p) % c.p
    x3 = (lam * lam - x1 - x2) % c.p
    return (x3, (lam * (x1 - x3) - y1) % c.p)


def mul_affine(c: Curve, k: int, pt: Point) -> Point:
    k %= c.n
    acc: Point = None
    q = pt
    while k:
        if k & 1:
            acc = add(c, acc, q)
        q = add(c, q, q)
        k >>= 1
    return acc


def _jdbl(c: Curve, P):
    X, Y, Z = P
    if not Y or not Z:
        return (1, 1, 0)
    p = c.p
    YY = Y * Y % p
    S = 4 * X * YY % p
    ZZ = Z * Z % p
    M = 3 * (X - ZZ) * (X + ZZ) % p  # a = -3
    X3 = (M * M - 2 * S) % p
    return (X3, (M * (S - X3) - 8 * YY * YY) % p, 2 * Y * Z % p)


def _jadd_affine(c: Curve, P, q):
    """Jacobian P + affine q"""
    X1, Y1, Z1 = P
    if not Z1:
        return (q[0], q[1], 1)
    p = c.p
    Z1Z1 = Z1 * Z1 % p
    U2 = q[0] * Z1Z1 % p
    S2 = q[1] * Z1 * Z1Z1 % p
    H = (U2 - X1) % p
    R = (S2 - Y1) % p
    if not H:
        if not R:
            return _jdbl(c, P)
        return (1, 1, 0)
    HH = H * H % p
    HHH = H * HH % p
    V = X1 * HH % p
    X3 = (R * R - HHH - 2 * V) % p
    return (X3, (R * (V - X3) - Y1 * HHH) % p, Z1 * H % p)


def mul(c: Curve, k: int, pt: Point) -> Point:
    """left-to-right double-and-add in Jacobian coordinates (one inversion at the end)"""
    k %= c.n
    if pt is None or not k:
        return None
    acc = (1, 1, 0)
    for bit in bin(k)[2:]:
        acc = _jdbl(c, acc)
        if bit == "1":
            acc = _jadd_affine(c, acc, pt)
    if not acc[2]:
        return None
    zi = pow(acc[2], -1, c.p)
    zi2 = zi * zi % c.p
    return (acc[0] * zi2 % c.p, acc[1] * zi2 * zi % c.p)


def calibrate() -> t.List[str]:
    from cryptography.hazmat.primitives.asymmetric import ec as cec

    for c, cc in ((P256, cec.SECP256R1()), (P384, cec.SECP384R1())):
        assert on_curve(c, c.g)
        acc: Point = None
        for k in list(range(1, 21)):
            acc = add(c, acc, c.g)
            pn = cec.derive_private_key(k, cc).public_key().public_numbers()
            assert acc == (pn.x, pn.y) == mul(c, k, c.g), (c.name, k)
        for k in (c.n - 1, c.n - 2, 2 ** (c.size * 8 - 1), 0xDEADBEEF * 2**100 + 12345):
            pn = cec.derive_private_key(k, cc).public_key().public_numbers()
            assert mul(c, k, c.g) == (pn.x, pn.y) == mul_affine(c, k, c.g), (c.name, k)
            q = mul(c, 7, c.g)
            assert mul(c, k, q) == mul_affine(c, k, q) == mul(c, 7 * k, c.g)
        assert mul(c, c.n, c.g) is None
    return ["ec: P-256/P-384 k*G for k=1..20, n-1, n-2, 2^(bits-1) agree with cryptography"]
