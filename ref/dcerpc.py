"""Independent connection-oriented DCE/RPC PDU codec (C706 ch.12, MS-RPCE). No import of dpapi_ng.

PDUs are plain dicts. encode(decode(x)) == x for well-formed input is part of calibration.
"""
from __future__ import annotations

import struct
import typing as t
import uuid

REQUEST, RESPONSE, FAULT, BIND, BIND_ACK, BIND_NAK, ALTER_CONTEXT, ALTER_CONTEXT_RESP = 0, 2, 3, 11, 12, 13, 14, 15
PFC_FIRST, PFC_LAST, PFC_SIGN, PFC_OBJECT = 0x01, 0x02, 0x04, 0x80
DREP = b"\x10\x00\x00\x00"

NDR = (uuid.UUID("8a885d04-1ceb-11c9-9fe8-08002b104860"), 2, 0)
NDR64 = (uuid.UUID("71710533-beba-4937-8319-b5dbef9ccc36"), 1, 0)
EPM = (uuid.UUID("e1af8308-5d1f-11c9-91a4-08002b14a0fa"), 3, 0)
ISD_KEY = (uuid.UUID("b9785960-524f-11df-8b6d-83dcded72085"), 1, 0)
BTFN_PREFIX = bytes.fromhex("2c1cb76c12984045")  # bind time feature negotiation uuid prefix
VT_SIGNATURE = bytes.fromhex("8ae3137102f43671")

Syntax = t.Tuple[uuid.UUID, int, int]


class RpcError(Exception):
    pass


def syntax_bytes(s: Syntax) -> bytes:
    return s[0].bytes_le + struct.pack("<HH", s[1], s[2])


def syntax_parse(b: bytes) -> Syntax:
    if len(b) < 20:
        raise RpcError("short syntax id")
    return (uuid.UUID(bytes_le=bytes(b[:16])), *struct.unpack("<HH", b[16:20]))


def is_btfn(s: Syntax) -> bool:
    return s[0].bytes_le[:8] == BTFN_PREFIX


def header(ptype: int, flags: int, frag_len: int, auth_len: int, call_id: int, drep: bytes = DREP, ver: t.Tuple[int, int] = (5, 0)) -> bytes:
    return struct.pack("<BBBB4sHHI", ver[0], ver[1], ptype, flags, drep, frag_len, auth_len, call_id)


def sec_trailer(auth_type: int, level: int, pad: int, ctx_id: int, token: bytes, reserved: int = 0) -> bytes:
    return struct.pack("<BBBBI", auth_type, level, pad, reserved, ctx_id) + token


def _finish(ptype: int, flags: int, call_id: int, body: bytes, auth: t.Optional[dict], frag_len: t.Optional[int] = None, auth_len: t.Optional[int] = None, drep: bytes = DREP) -> bytes:
    tail = b""
    alen = 0
    if auth is not None:
        tail = sec_trailer(auth["type"], auth["level"], auth.get("pad", 0), auth.get("ctx", 0), auth["token"], auth.get("reserved", 0))
        alen = len(auth["token"])
    total = 16 + len(body) + len(tail)
    return header(ptype, flags, total if frag_len is None else frag_len, alen if auth_len is None else auth_len, call_id, drep) + body + tail


def enc_bind_like(ptype: int, flags: int, call_id: int, contexts: t.Sequence[t.Tuple[int, Syntax, t.Sequence[Syntax]]], auth: t.Optional[dict] = None, max_xmit: int = 5840, max_recv: int = 5840, assoc: int = 0) -> bytes:
    body = struct.pack("<HHIBBH", max_xmit, max_recv, assoc, len(contexts), 0, 0)
    for cid, abstract, transfers in contexts:
        body += struct.pack("<HBB", cid, len(transfers), 0) + syntax_bytes(abstract) + b"".join(syntax_bytes(x) for x in transfers)
    return _finish(ptype, flags, call_id, body, auth)


def enc_ack_like(ptype: int, flags: int, call_id: int, results: t.Sequence[t.Tuple[int, int, Syntax]], auth: t.Optional[dict] = None, sec_addr: bytes = b"135\x00", max_xmit: int = 5840, max_recv: int = 5840, assoc: int = 0x1234, pad_fill: bytes = b"") -> bytes:
    """results: (result, reason, transfer syntax (uuid, ver, minor))"""
    body = struct.pack("<HHIH", max_xmit, max_recv, assoc, len(sec_addr)) + sec_addr
    npad = -(len(body)) % 4  # the body starts 4-aligned (after the 16-byte header)
    body += (pad_fill + b"\x00" * npad)[:npad]  # padding content is not significant (captured PDUs carry stale bytes)
    body += struct.pack("<B3x", len(results))
    for res, reason, syn in results:
        body += struct.pack("<HH", res, reason) + syn[0].bytes_le + struct.pack("<I", syn[1] | (syn[2] << 16))
    return _finish(ptype, flags, call_id, body, auth)


def enc_bind_nak(call_id: int, reason: int, versions: t.Sequence[t.Tuple[int, int]] = ((5, 0),), flags: int = 3) -> bytes:
    body = struct.pack("<HB", reason, len(versions)) + b"".join(bytes(v) for v in versions)
    body += b"\x00" * (-len(body) % 4)
    return _finish(BIND_NAK, flags, call_id, body, None)


def enc_request(call_id: int, ctx_id: int, opnum: int, stub: bytes, auth: t.Optional[dict] = None, obj: t.Optional[uuid.UUID] = None, flags: int = 3, alloc_hint: t.Optional[int] = None) -> bytes:
    body = struct.pack("<IHH", len(stub) if alloc_hint is None else alloc_hint, ctx_id, opnum)
    if obj is not None:
        body += obj.bytes_le
        flags |= PFC_OBJECT
    return _finish(REQUEST, flags, call_id, body + stub, auth)


def enc_response(call_id: int, ctx_id: int, stub: bytes, auth: t.Optional[dict] = None, flags: int = 3, cancel: int = 0, alloc_hint: t.Optional[int] = None, **kw: t.Any) -> bytes:
    body = struct.pack("<IHBB", len(stub) if alloc_hint is None else alloc_hint, ctx_id, cancel, 0)
    return _finish(RESPONSE, flags, call_id, body + stub, auth, **kw)


def enc_fault(call_id: int, ctx_id: int, status: int, stub: bytes = b"", auth: t.Optional[dict] = None, flags: int = 3, cancel: int = 0, fflags: int = 0, alloc_hint: t.Optional[int] = None) -> bytes:
    body = struct.pack("<IHBBII", len(stub) if alloc_hint is None else alloc_hint, ctx_id, cancel, fflags, status, 0)
    return _finish(FAULT, flags, call_id, body + stub, auth)


def decode(data: bytes, strict: bool = True) -> dict:
    """Decode one PDU. strict: frag_len must equal len(data) and structure must tile exactly."""
    if len(data) < 16:
        raise RpcError("short header")
    v, vm, ptype, flags, drep, frag_len, auth_len, call_id = struct.unpack("<BBBB4sHHI", data[:16])
    if strict and frag_len != len(data):
        raise RpcError(f"frag_len {frag_len} != {len(data)}")
    d: t.Dict[str, t.Any] = dict(ver=(v, vm), ptype=ptype, flags=flags, drep=drep, frag_len=frag_len, auth_len=auth_len, call_id=call_id)
    end = frag_len
    auth = None
    if auth_len:
        tstart = end - auth_len - 8
        if tstart < 16:
            raise RpcError("auth_len too large")
        at, lv, pad, rsv, cid = struct.unpack("<BBBBI", data[tstart : tstart + 8])
        auth = dict(type=at, level=lv, pad=pad, reserved=rsv, ctx=cid, token=bytes(data[tstart + 8 : end]), offset=tstart)
        end = tstart
    d["auth"] = auth
    body = bytes(data[16:end])
    d["body"] = body
    if ptype in (BIND, ALTER_CONTEXT):
        if len(body) < 12:
            raise RpcError("short bind")
        mx, mr, assoc, n, r1, r2 = struct.unpack("<HHIBBH", body[:12])
        p = 12
        ctxs = []
        for _ in range(n):
            if len(body) < p + 24:
                raise RpcError("short context")
            cid, nt, rs = struct.unpack("<HBB", body[p : p + 4])
            ab = syntax_parse(body[p + 4 : p + 24])
            p += 24
            tr = []
            for _ in range(nt):
                tr.append(syntax_parse(body[p : p + 20]))
                p += 20
            ctxs.append((cid, ab, tuple(tr)))
        if strict and p != len(body):
            raise RpcError("bind: trailing bytes")
        d.update(max_xmit=mx, max_recv=mr, assoc=assoc, contexts=ctxs)
    elif ptype in (BIND_ACK, ALTER_CONTEXT_RESP):
        mx, mr, assoc, sl = struct.unpack("<HHIH", body[:10])
        sec_addr = body[10 : 10 + sl]
        p = 10 + sl
        d["pad_fill"] = body[p : p + (-p % 4)]
        p += -p % 4
        n = body[p]
        p += 4
        res = []
        for _ in range(n):
            r, reason = struct.unpack("<HH", body[p : p + 4])
            u = uuid.UUID(bytes_le=body[p + 4 : p + 20])
            ver = struct.unpack("<I", body[p + 20 : p + 24])[0]
            res.append((r, reason, (u, ver & 0xFFFF, ver >> 16)))
            p += 24
        if strict and p != len(body):
            raise RpcError("ack: trailing bytes")
        d.update(max_xmit=mx, max_recv=mr, assoc=assoc, sec_addr=sec_addr, results=res)
    elif ptype == BIND_NAK:
        reason, n = struct.unpack("<HB", body[:3])
        d.update(reason=reason, versions=[(body[3 + 2 * i], body[4 + 2 * i]) for i in range(n)])
    elif ptype == REQUEST:
        if len(body) < 8:
            raise RpcError("short request")
        ah, cid, op = struct.unpack("<IHH", body[:8])
        p = 8
        obj = None
        if flags & PFC_OBJECT:
            obj = uuid.UUID(bytes_le=body[8:24])
            p = 24
        d.update(alloc_hint=ah, ctx_id=cid, opnum=op, obj=obj, stub=body[p:], stub_offset=16 + p)
    elif ptype == RESPONSE:
        ah, cid, cancel, rs = struct.unpack("<IHBB", body[:8])
        d.update(alloc_hint=ah, ctx_id=cid, cancel=cancel, stub=body[8:], stub_offset=24)
    elif ptype == FAULT:
        ah, cid, cancel, ff, status, rs = struct.unpack("<IHBBII", body[:16])
        d.update(alloc_hint=ah, ctx_id=cid, cancel=cancel, fault_flags=ff, status=status, stub=body[16:])
    else:
        raise RpcError(f"unsupported ptype {ptype}")
    return d


def encode(d: dict) -> bytes:
    pt = d["ptype"]
    a = d.get("auth")
    if pt in (BIND, ALTER_CONTEXT):
        return enc_bind_like(pt, d["flags"], d["call_id"], d["contexts"], a, d["max_xmit"], d["max_recv"], d["assoc"])
    if pt in (BIND_ACK, ALTER_CONTEXT_RESP):
        return enc_ack_like(pt, d["flags"], d["call_id"], d["results"], a, d["sec_addr"], d["max_xmit"], d["max_recv"], d["assoc"], d.get("pad_fill", b""))
    if pt == BIND_NAK:
        return enc_bind_nak(d["call_id"], d["reason"], d["versions"], d["flags"])
    if pt == REQUEST:
        return enc_request(d["call_id"], d["ctx_id"], d["opnum"], d["stub"], a, d.get("obj"), d["flags"] & ~PFC_OBJECT, d["alloc_hint"])
    if pt == RESPONSE:
        return enc_response(d["call_id"], d["ctx_id"], d["stub"], a, d["flags"], d["cancel"], d["alloc_hint"])
    if pt == FAULT:
        return enc_fault(d["call_id"], d["ctx_id"], d["status"], d["stub"], a, d["flags"], d["cancel"], d["fault_flags"], d["alloc_hint"])
    raise RpcError("ptype")


# -- verification trailer ------------------------------------------------------------------------

VT_BITMASK, VT_PCONTEXT, VT_HEADER2 = 1, 2, 3
VT_END, VT_MUST = 0x4000, 0x8000


def enc_vt(commands: t.Sequence[t.Tuple[int, int, bytes]]) -> bytes:
    """commands: (type, flags, value)"""
    return VT_SIGNATURE + b"".join(struct.pack("<HH", c | f, len(v)) + v for c, f, v in commands)


def vt_pcontext(interface: Syntax, transfer: Syntax, flags: int = VT_END) -> t.Tuple[int, int, bytes]:
    return (VT_PCONTEXT, flags, syntax_bytes(interface) + syntax_bytes(transfer))


def dec_vt(b: bytes) -> t.List[t.Tuple[int, int, bytes]]:
    if b[:8] != VT_SIGNATURE:
        raise RpcError("vt signature")
    p = 8
    out = []
    while True:
        if len(b) < p + 4:
            raise RpcError("vt truncated")
        cf, ln = struct.unpack("<HH", b[p : p + 4])
        if len(b) < p + 4 + ln:
            raise RpcError("vt value truncated")
        out.append((cf & 0x3FFF, cf & 0xC000, bytes(b[p + 4 : p + 4 + ln])))
        p += 4 + ln
        if cf & VT_END:
            break
    if p != len(b):
        raise RpcError("vt trailing")
    return out


def find_vt(stub_region: bytes) -> t.Optional[int]:
    """offset of the verification trailer signature (4-aligned, searched from the end as MS-RPCE 2.2.2.13 says)"""
    i = stub_region.rfind(VT_SIGNATURE)
    while i >= 0:
        if i % 4 == 0:
            return i
        i = stub_region.rfind(VT_SIGNATURE, 0, i)
    return None


# -- calibration on the PDUs captured in the repository's tests -------------------------------------


def captured_bytes(path: str) -> t.List[t.Tuple[str, bytes]]:
    """(test function name, bytes literal) for every `expected = b"..."` / `data = b"..."` assignment in a test file"""
    import ast

    out = []
    tree = ast.parse(open(path).read())
    for fn in ast.walk(tree):
        if isinstance(fn, ast.FunctionDef):
            for node in ast.walk(fn):
                if isinstance(node, ast.Assign) and isinstance(node.value, ast.Constant) and isinstance(node.value.value, bytes):
                    if isinstance(node.targets[0], ast.Name) and node.targets[0].id in ("expected", "data"):
                        out.append((fn.name, node.value.value))
    return out


def calibrate() -> t.List[str]:
    n = 0
    types = set()
    for f in ("test_bind.py", "test_request.py", "test_pdu.py"):
        for name, raw in captured_bytes("/repo/tests/_rpc/" + f):
            if len(raw) < 16 or raw[0] != 5:
                continue
            if struct.unpack("<H", raw[8:10])[0] != len(raw):
                continue  # hand-made vectors whose frag_len does not match their size (header-only / edited samples)
            d = decode(raw)
            assert encode(d) == raw, name
            types.add(d["ptype"])
            n += 1
    assert {BIND, BIND_ACK, BIND_NAK, ALTER_CONTEXT, ALTER_CONTEXT_RESP, REQUEST, RESPONSE, FAULT} <= types, types
    nv = 0
    for name, raw in captured_bytes("/repo/tests/_rpc/test_verification.py"):
        if raw[:8] == VT_SIGNATURE:
            assert enc_vt(dec_vt(raw)) == raw, name
            nv += 1
    assert nv >= 2
    return [f"dcerpc: {n} captured PDUs of all 8 types and {nv} verification trailers from tests/_rpc decode and re-encode byte-for-byte"]
