"""Independent MS-DTYP SID / ACE / ACL / self-relative SD builder and parser."""
from __future__ import annotations

import struct
import typing as t


class DtypError(Exception):
    pass


class Sid(t.NamedTuple):
    revision: int
    authority: int
    subs: t.Tuple[int, ...]

    def __str__(self) -> str:
        return "S-%d-%d" % (self.revision, self.authority) + "".join("-%d" % s for s in self.subs)


ASCII_DIGITS = set("0123456789")


def parse_sid_string(s: str) -> Sid:
    """Canonical MS-DTYP 2.4.2.1 string SID: S-R-A-s1..sn, decimal ASCII, 1..15 sub-authorities, in range."""
    parts = s.split("-")
    if len(parts) < 4 or parts[0] != "S":
        raise DtypError("shape")
    for p in parts[1:]:
        if not p or any(ch not in ASCII_DIGITS for ch in p):
            raise DtypError("digits")
    if len(parts[1]) != 1:
        raise DtypError("revision")
    rev = int(parts[1])
    auth = int(parts[2])
    subs = tuple(int(p) for p in parts[3:])
    if not 1 <= len(subs) <= 15:
        raise DtypError("count")
    if auth >= 2**48 or any(x >= 2**32 for x in subs):
        raise DtypError("range")
    return Sid(rev, auth, subs)


def sid_bytes(s: Sid) -> bytes:
    return bytes([s.revision, len(s.subs)]) + s.authority.to_bytes(6, "big") + b"".join(struct.pack("<I", x) for x in s.subs)


def parse_sid(b: bytes, off: int = 0) -> t.Tuple[Sid, int]:
    if len(b) < off + 8:
        raise DtypError("sid header")
    rev, n = b[off], b[off + 1]
    auth = int.from_bytes(b[off + 2 : off + 8], "big")
    end = off + 8 + 4 * n
    if len(b) < end:
        raise DtypError("sid body")
    subs = struct.unpack("<%dI" % n, b[off + 8 : end])
    return Sid(rev, auth, tuple(subs)), end


def ace_allowed(sid: Sid, mask: int) -> bytes:
    sb = sid_bytes(sid)
    return struct.pack("<BBHI", 0, 0, 8 + len(sb), mask) + sb


def acl(aces: t.Sequence[bytes]) -> bytes:
    body = b"".join(aces)
    return struct.pack("<BBHHH", 2, 0, 8 + len(body), len(aces), 0) + body


SYSTEM = Sid(1, 5, (18,))
EVERYONE = Sid(1, 1, (0,))


def target_sd(sid: Sid) -> bytes:
    """SD the KDS uses for a SID protection descriptor: owner=group=SYSTEM, DACL{(sid,3),(Everyone,2)},
    self-relative, laid out header | DACL | owner | group."""
    d = acl([ace_allowed(sid, 3), ace_allowed(EVERYONE, 2)])
    o = sid_bytes(SYSTEM)
    g = sid_bytes(SYSTEM)
    dacl_off = 20
    owner_off = dacl_off + len(d)
    group_off = owner_off + len(o)
    return struct.pack("<BBHIIII", 1, 0, 0x8004, owner_off, group_off, 0, dacl_off) + d + o + g


class ParsedSD(t.NamedTuple):
    revision: int
    control: int
    owner: Sid
    group: Sid
    sacl_off: int
    dacl_rev: int
    aces: t.Tuple[t.Tuple[int, int, int, Sid], ...]  # (type, flags, mask, sid)
    regions: t.Tuple[t.Tuple[str, int, int], ...]  # (name, start, end)


def parse_sd(b: bytes) -> ParsedSD:
    if len(b) < 20:
        raise DtypError("sd header")
    rev, sbz, control, o_off, g_off, s_off, d_off = struct.unpack("<BBHIIII", b[:20])
    if sbz != 0:
        raise DtypError("sbz1")
    owner, o_end = parse_sid(b, o_off)
    group, g_end = parse_sid(b, g_off)
    if d_off == 0:
        raise DtypError("no dacl")
    if len(b) < d_off + 8:
        raise DtypError("dacl header")
    arev, asbz, asize, acount, asbz2 = struct.unpack("<BBHHH", b[d_off : d_off + 8])
    if asbz or asbz2:
        raise DtypError("acl sbz")
    p = d_off + 8
    aces = []
    for _ in range(acount):
        if len(b) < p + 8:
            raise DtypError("ace header")
        atype, aflags, size, mask = struct.unpack("<BBHI", b[p : p + 8])
        sid, send = parse_sid(b, p + 8)
        if send != p + size:
            raise DtypError("ace size %d != %d" % (size, send - p))
        aces.append((atype, aflags, mask, sid))
        p = send
    if p != d_off + asize:
        raise DtypError("acl size")
    regions = tuple(sorted([("dacl", d_off, d_off + asize), ("owner", o_off, o_end), ("group", g_off, g_end)], key=lambda r: r[1]))
    return ParsedSD(rev, control, owner, group, s_off, arev, tuple(aces), regions)


def check_target_sd(b: bytes, sid: Sid) -> t.Optional[str]:
    """None if b is exactly the MS-DTYP target SD for sid, else a description of the difference."""
    try:
        p = parse_sd(b)
    except (DtypError, struct.error) as e:
        return f"unparseable: {e!r}"
    if p.revision != 1 or p.control != 0x8004 or p.sacl_off != 0:
        return f"header rev={p.revision} control={p.control:#x} sacl={p.sacl_off}"
    if p.owner != SYSTEM or p.group != SYSTEM:
        return f"owner/group {p.owner} {p.group}"
    if p.dacl_rev != 2 or p.aces != ((0, 0, 3, sid), (0, 0, 2, EVERYONE)):
        return f"dacl {p.dacl_rev} {p.aces}"
    pos = 20
    names = []
    for name, s, e in p.regions:
        if s != pos:
            return f"gap/overlap before {name}: {s} != {pos}"
        pos = e
        names.append(name)
    if pos != len(b):
        return "trailing bytes"
    if names != ["dacl", "owner", "group"]:
        return f"region order {names}"
    if b != target_sd(sid):
        return "bytes differ from reference builder"
    return None


def calibrate() -> t.List[str]:
    import json
    import os

    path = "/repo/tests/data/seed_key.json"
    if not os.path.exists(path):
        raise AssertionError("missing calibration data " + path)
    real = bytes.fromhex(json.load(open(path))["SecurityDescriptor"])
    p = parse_sd(real)
    target = p.aces[0][3]
    assert check_target_sd(real, target) is None, check_target_sd(real, target)
    assert target_sd(target) == real
    assert str(target).startswith("S-1-5-21-") and parse_sid_string(str(target)) == target
    return [f"dtyp: real Windows SD in seed_key.json rebuilt byte-for-byte from {target}"]
