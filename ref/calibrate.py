"""Reference-model calibration against ground truth in /repo/tests/data (setup_cmd)."""
from __future__ import annotations

import sys


def run_all(verbose: bool = False) -> list:
    done = []
    from ref import der

    der.selfcheck()
    done.append("der: X.690 worked examples")
    for name in ("cms", "dtyp", "gkdi", "dcerpc", "epm"):
        try:
            mod = __import__(f"ref.{name}", fromlist=["calibrate"])
        except ModuleNotFoundError:
            continue
        cal = getattr(mod, "calibrate", None)
        if cal:
            done.extend(cal())
    return done


def main() -> int:
    try:
        for line in run_all(True):
            print("calibrated:", line)
    except Exception as e:  # noqa: BLE001
        import traceback

        traceback.print_exc()
        print("CALIBRATION FAILED:", e, file=sys.stderr)
        return 2
    return 0
