"""Independent endpoint-mapper codec: towers/floors, ept_map request and reply (NDR64)."""
from __future__ import annotations

import struct
import typing as t
import uuid

from ref import dcerpc

Floor = t.Tuple[int, bytes, bytes]  # (protocol, lhs-without-protocol-byte, rhs)

P_TCP, P_UDP, P_IP, P_RPC_CO, P_UUID, P_PIPE, P_NETBIOS = 0x07, 0x08, 0x09, 0x0B, 0x0D, 0x10, 0x11


class EpmError(Exception):
    pass


def floor_bytes(f: Floor) -> bytes:
    proto, lhs, rhs = f
    return struct.pack("<HB", 1 + len(lhs), proto) + lhs + struct.pack("<H", len(rhs)) + rhs


def tower_octets(floors: t.Sequence[Floor]) -> bytes:
    return struct.pack("<H", len(floors)) + b"".join(floor_bytes(f) for f in floors)


def parse_tower(b: bytes) -> t.List[Floor]:
    if len(b) < 2:
        raise EpmError("tower short")
    n = struct.unpack("<H", b[:2])[0]
    p = 2
    out = []
    for _ in range(n):
        if len(b) < p + 3:
            raise EpmError("floor lhs short")
        ll = struct.unpack("<H", b[p : p + 2])[0]
        if ll < 1 or len(b) < p + 2 + ll + 2:
            raise EpmError("floor lhs")
        proto = b[p + 2]
        lhs = bytes(b[p + 3 : p + 2 + ll])
        p += 2 + ll
        rl = struct.unpack("<H", b[p : p + 2])[0]
        if len(b) < p + 2 + rl:
            raise EpmError("floor rhs")
        rhs = bytes(b[p + 2 : p + 2 + rl])
        p += 2 + rl
        out.append((proto, lhs, rhs))
    if p != len(b):
        raise EpmError("tower trailing")
    return out


def uuid_floor(s: dcerpc.Syntax) -> Floor:
    return (P_UUID, s[0].bytes_le + struct.pack("<H", s[1]), struct.pack("<H", s[2]))


def tcp_floor(port: int) -> Floor:
    return (P_TCP, b"", struct.pack(">H", port))


def ip_floor(addr: int = 0) -> Floor:
    return (P_IP, b"", struct.pack(">I", addr))


def rpc_co_floor(minor: int = 0) -> Floor:
    return (P_RPC_CO, b"", struct.pack("<H", minor))


def tcpip_tower(interface: dcerpc.Syntax, data_rep: dcerpc.Syntax, port: int, addr: int = 0) -> t.List[Floor]:
    return [uuid_floor(interface), uuid_floor(data_rep), rpc_co_floor(0), tcp_floor(port), ip_floor(addr)]


def ept_map_request(obj: t.Optional[uuid.UUID], floors: t.Sequence[Floor], handle: bytes = b"\x00" * 20, max_towers: int = 4) -> bytes:
    tw = tower_octets(floors)
    out = struct.pack("<Q", 1) + (obj.bytes_le if obj else b"\x00" * 16)
    out += struct.pack("<Q", 2) + struct.pack("<Q", len(tw)) + struct.pack("<I", len(tw)) + tw
    out += b"\x00" * (-len(out) % 8)
    return out + handle + struct.pack("<I", max_towers)


def parse_ept_map_request(b: bytes) -> dict:
    ref1 = struct.unpack("<Q", b[:8])[0]
    if not ref1:
        raise EpmError("null obj pointer")
    obj = bytes(b[8:24])
    ref2, mx, ln = struct.unpack("<QQI", b[24:44])
    if not ref2 or mx != ln:
        raise EpmError("tower pointer/conformance")
    tw = bytes(b[44 : 44 + ln])
    p = 44 + ln
    g = -p % 8
    if b[p : p + g] != b"\x00" * g:
        raise EpmError("tower padding not zero")
    p += g
    if len(b) != p + 24:
        raise EpmError(f"ept_map request length {len(b)} != {p + 24}")
    return dict(obj=None if obj == b"\x00" * 16 else uuid.UUID(bytes_le=obj), floors=parse_tower(tw), handle=bytes(b[p : p + 20]), max_towers=struct.unpack("<I", b[p + 20 : p + 24])[0])


def ept_map_response(towers: t.Sequence[t.Sequence[Floor]], status: int = 0, handle: bytes = b"\x00" * 20, max_count: t.Optional[int] = None, raw_towers: t.Optional[t.Sequence[bytes]] = None) -> bytes:
    """NDR64: handle(20) num_towers(4) | max(8) offset(8) actual(8) | referents | per tower 8-aligned: max(8) len(4) octets | pad 4 | status"""
    octs = list(raw_towers) if raw_towers is not None else [tower_octets(f) for f in towers]
    n = len(octs)
    out = handle + struct.pack("<I", n)
    out += struct.pack("<QQQ", n if max_count is None else max_count, 0, n)
    for i in range(n):
        out += struct.pack("<Q", 3 + i)
    for o in octs:
        out += b"\x00" * (-len(out) % 8)
        out += struct.pack("<QI", len(o), len(o)) + o
    out += b"\x00" * (-len(out) % 4)
    return out + struct.pack("<I", status)


def parse_ept_map_response(b: bytes) -> dict:
    handle = bytes(b[:20])
    n = struct.unpack("<I", b[20:24])[0]
    mx, off, actual = struct.unpack("<QQQ", b[24:48])
    if actual != n or off != 0:
        raise EpmError("array header")
    p = 48 + 8 * actual
    towers = []
    for _ in range(actual):
        p += -p % 8
        tmx, ln = struct.unpack("<QI", b[p : p + 12])
        if tmx != ln:
            raise EpmError("tower conformance")
        towers.append(parse_tower(b[p + 12 : p + 12 + ln]))
        p += 12 + ln
    p += -p % 4
    if len(b) != p + 4:
        raise EpmError(f"reply length {len(b)} != {p + 4}")
    return dict(handle=handle, towers=towers, status=struct.unpack("<I", b[p : p + 4])[0], max_count=mx)


def calibrate() -> t.List[str]:
    caps = dcerpc.captured_bytes("/repo/tests/test_epm.py")
    nreq = nresp = 0
    for name, raw in caps:
        if "result" in name or "response" in name:
            d = parse_ept_map_response(raw)
            assert ept_map_response(d["towers"], d["status"], d["handle"], d["max_count"]) == raw, name
            if len(raw) == 340:
                assert len(d["towers"]) == 3 and all(len(tower_octets(x)) == 75 for x in d["towers"])
                nresp += 1
        elif "ept_map" in name:
            d = parse_ept_map_request(raw)
            assert ept_map_request(d["obj"], d["floors"], d["handle"], d["max_towers"]) == raw, name
            if len(raw) == 144:
                assert d["floors"] == tcpip_tower(dcerpc.ISD_KEY, dcerpc.NDR, 135, 0)
                nreq += 1
    assert nreq >= 1 and nresp >= 1, (nreq, nresp, [n for n, _ in caps])
    return [f"epm: captured ept_map request ({nreq}) and reply ({nresp}, 3 towers of 75 bytes) decode and re-encode byte-for-byte"]
