"""Security-context seams: a scripted (recording) provider replacing spnego.client, and real NTLM helpers."""
from __future__ import annotations

import contextlib
import hashlib
import os
import tempfile
import typing as t

from env import seams

NTLM_USER = "VERIF\\alice"
NTLM_PASS = "Passw0rd!verif"
_ntlm_ready = False


def ntlm_setup() -> None:
    """pyspnego's NTLM *server* looks accounts up in NTLM_USER_FILE; the file lives in a per-process temp dir."""
    global _ntlm_ready
    if _ntlm_ready and os.path.exists(os.environ.get("NTLM_USER_FILE", "/nonexistent")):
        return
    import atexit
    import shutil

    base = os.environ.get("VERIF_RUN_TMP")
    d = tempfile.mkdtemp(prefix="verif-ntlm-", dir=base if base and os.path.isdir(base) else None)
    atexit.register(shutil.rmtree, d, True)
    path = os.path.join(d, "users")
    with open(path, "w") as f:
        f.write("VERIF:alice:%s\n" % NTLM_PASS)
    os.environ["NTLM_USER_FILE"] = path
    _ntlm_ready = True


def ntlm_server():
    import spnego

    ntlm_setup()
    return spnego.server(protocol="ntlm", context_req=spnego.ContextReq.default | spnego.ContextReq.dce_style)


# ---------------------------------------------------------------------------------------------------


class Sizes(t.NamedTuple):
    header: int


class ResBuf(t.NamedTuple):
    type: t.Any
    data: t.Optional[bytes]


class IovResult(t.NamedTuple):
    buffers: t.Tuple[ResBuf, ...]
    encrypted: bool = True
    qop: int = 0


def _norm(iov: t.Sequence[t.Any]):
    import spnego.iov as siov

    out = []
    for e in iov:
        if isinstance(e, tuple):
            out.append((siov.BufferType(e[0]), None if e[1] is None or isinstance(e[1], (bool, int)) else bytes(e[1])))
        elif isinstance(e, (bytes, bytearray, memoryview)):
            out.append((siov.BufferType.data, bytes(e)))
        else:
            out.append((siov.BufferType(e), None))
    return out


def xor(b: bytes, k: int = 0x5A) -> bytes:
    return bytes(x ^ k for x in b)


class ScriptedContext:
    """Plays the GSS provider. `legs` client tokens are produced: tokens[i] for leg i (b'' allowed for the last one);
    the context reports complete after leg `complete_after` (index into step calls).  Sealing is an invertible marker
    transform (XOR 0x5A) with a keyed digest as signature so both ends can verify, and every call is recorded."""

    def __init__(self, tokens: t.Sequence[bytes], sig_size: int = 16, complete_after: t.Optional[int] = None, role: str = "client", key: bytes = b"k") -> None:
        self.tokens = list(tokens)
        self.sig_size = sig_size
        self.complete_after = len(self.tokens) - 1 if complete_after is None else complete_after
        self.role = role
        self.key = key
        self.steps: t.List[t.Optional[bytes]] = []
        self.complete_reads = 0
        self.wraps: t.List[dict] = []
        self.unwraps: t.List[dict] = []
        self.seq_out = 0
        self.seq_in = 0
        self.calls_after_complete = 0
        self.events: t.List[t.Tuple[str, t.Any]] = []
        self.strict_completion = False  # per-message calls on an unfinished context are refused (what GSS / SSPI do)
        self.expect_in: t.Optional[t.List[t.Optional[bytes]]] = None  # the peer's tokens in order: a real mechanism rejects anything else
        self.provisional_sig_size: t.Optional[int] = None  # header size reported while the context is still incomplete
        self.fail_wrap_at: t.Dict[int, str] = {}  # index of the wrap_iov call -> name of the spnego exception it raises (a transient provider error)
        self.fail_unwrap_at: t.Dict[int, str] = {}

    # -- spnego ContextProxy surface used by dpapi-ng
    @property
    def complete(self) -> bool:
        self.complete_reads += 1
        return len(self.steps) > self.complete_after

    def step(self, in_token: t.Optional[bytes] = None, *a: t.Any, **k: t.Any) -> t.Optional[bytes]:
        if len(self.steps) > self.complete_after:
            self.calls_after_complete += 1
        i = len(self.steps)
        self.steps.append(None if in_token is None else bytes(in_token))
        self.events.append(("step", None if in_token is None else bytes(in_token)))
        if self.expect_in is not None and i < len(self.expect_in):
            want = self.expect_in[i]
            got = None if in_token is None else bytes(in_token)
            if (want or b"") != (got or b""):
                import spnego.exceptions as se

                raise se.InvalidTokenError(context_msg=f"scripted context: leg {i} expected the peer token {want!r}, got {got!r}")
        if i < len(self.tokens):
            return self.tokens[i]
        return b""

    def query_message_sizes(self) -> Sizes:
        if self.provisional_sig_size is not None and len(self.steps) <= self.complete_after:
            return Sizes(self.provisional_sig_size)
        return Sizes(self.sig_size)

    def _sig(self, direction: str, seq: int, bufs, size: t.Optional[int] = None) -> bytes:
        import spnego.iov as siov

        size = self.sig_size if size is None else size

        h = hashlib.sha256(self.key + direction.encode() + seq.to_bytes(4, "big"))
        for ty, data in bufs:
            if ty in (siov.BufferType.sign_only, siov.BufferType.data):
                h.update(b"|" + (data or b""))
        d = h.digest()
        return (d * (size // len(d) + 1))[:size]

    def wrap_iov(self, iov: t.Sequence[t.Any], encrypt: bool = True, qop: t.Optional[int] = None) -> IovResult:
        import spnego.iov as siov

        bufs = _norm(iov)
        self.wraps.append({"iov": bufs, "encrypt": encrypt, "qop": qop})
        self.events.append(("wrap", bufs))
        if self.strict_completion and len(self.steps) <= self.complete_after:
            import spnego.exceptions as se

            raise se.NoContextError(context_msg="scripted context: wrap on a context that is not established")
        if len(self.wraps) - 1 in self.fail_wrap_at:
            import spnego.exceptions as se

            raise getattr(se, self.fail_wrap_at[len(self.wraps) - 1])(context_msg="scripted provider failure")
        plain = [(ty, d) for ty, d in bufs]
        direction = "c2s" if self.role == "client" else "s2c"
        sig = self._sig(direction, self.seq_out, plain)
        self.seq_out += 1
        out = []
        for ty, d in bufs:
            if ty == siov.BufferType.data:
                out.append(ResBuf(ty, xor(d or b"") if encrypt else d))
            elif ty == siov.BufferType.header:
                out.append(ResBuf(ty, sig))
            else:
                out.append(ResBuf(ty, d))
        return IovResult(tuple(out), encrypt)

    def unwrap_iov(self, iov: t.Sequence[t.Any]) -> IovResult:
        import spnego.iov as siov
        from spnego.exceptions import BadMICError

        bufs = _norm(iov)
        self.unwraps.append({"iov": bufs})
        self.events.append(("unwrap", bufs))
        plain = []
        sig = b""
        for ty, d in bufs:
            if ty == siov.BufferType.data:
                plain.append((ty, xor(d or b"")))
            elif ty == siov.BufferType.header:
                sig = d or b""
                plain.append((ty, d))
            else:
                plain.append((ty, d))
        direction = "s2c" if self.role == "client" else "c2s"
        psz = getattr(self, "peer_sig_size", None)  # the peer's per-message tokens may be shorter than the maximum this side announces
        exp = self._sig(direction, self.seq_in, plain, psz)
        if sig != exp:
            # like a GSS mechanism, the context only insists on fresh, in-order per-message tokens if the initiator ASKED for replay and
            # sequence detection when it created the context (spnego.client(context_req=...)); otherwise an earlier token is accepted again
            req = getattr(self, "init_args", {}).get("context_req")
            enforce = True
            if req is not None:
                from spnego import ContextReq

                enforce = bool(int(req) & int(ContextReq.replay_detect | ContextReq.sequence_detect))
            if enforce or not any(sig == self._sig(direction, q, plain, psz) for q in range(self.seq_in)):
                raise BadMICError(context_msg="scripted context: signature mismatch")
            self.replays_accepted = getattr(self, "replays_accepted", 0) + 1
            return IovResult(tuple(ResBuf(ty, d) for ty, d in plain), True)
        self.seq_in += 1
        return IovResult(tuple(ResBuf(ty, d) for ty, d in plain), True)


@contextlib.contextmanager
def scripted_client(factory: t.Callable[..., ScriptedContext]):
    """Replace spnego.client; factory(username, password, **kw) -> ScriptedContext. Yields the list of created contexts."""
    import spnego

    made: t.List[ScriptedContext] = []

    def client(username: t.Any = None, password: t.Any = None, **kw: t.Any) -> ScriptedContext:
        ctx = factory(username, password, **kw)
        ctx.init_args = dict(username=username, password=password, **kw)  # type: ignore[attr-defined]
        made.append(ctx)
        return ctx

    with seams.patched(spnego, "client", client):
        yield made
