"""Reference domain controller (sans-IO): endpoint mapper + ISD_KEY (MS-GKDI GetKey) over DCE/RPC.

Built only from the independent reference codecs in /verif/ref. Every PDU it receives is decoded and logged
(`transcript`), every GetKey call is logged (`getkey_calls`). Policy and fault knobs are attributes.
"""
from __future__ import annotations

import struct
import typing as t
import uuid

from env import secctx, seams
from ref import cms, dcerpc as rpc, dtyp, epm, gkdi, ndr64

ISD_PORT = 49664
ACCEPT, USER_REJ, PROV_REJ, NEG_ACK = 0, 1, 2, 3
NIL = (uuid.UUID(int=0), 0, 0)


class DC:
    def __init__(
        self,
        roots: t.Sequence[gkdi.RootKey],
        now: t.Tuple[int, int, int] = (361, 10, 12),
        authorised: bool = True,
        cover: str = "exact",
        domain: str = "domain.test",
        forest: str = "domain.test",
        sec: str = "scripted",
        sig_size: int = 16,
        header_sign: bool = True,
        isd_port: int = ISD_PORT,
        hosts: t.Optional[t.Sequence[str]] = None,
    ) -> None:
        self.roots = {r.rkid: r for r in roots}
        self.default_root = roots[0].rkid if roots else None
        self.now = now
        self.authorised = authorised
        self.cover = cover
        self.domain, self.forest = domain, forest
        self.sec = sec
        self.sig_size = sig_size
        self.header_sign = header_sign
        self.isd_port = isd_port
        self.hosts = set(hosts) if hosts else None
        self.transcript: t.List[dict] = []
        self.getkey_calls: t.List[t.Tuple[bytes, t.Optional[uuid.UUID], int, int, int]] = []
        self.returned: t.List[t.Tuple[uuid.UUID, bytes, t.Tuple[int, int, int], bool]] = []  # (root key, SD, position returned, seed keys included)
        self.conns: t.List["Conn"] = []
        # fault / deviation knobs
        self.epm_stub: t.Optional[bytes] = None  # replaces the ept_map reply stub
        self.btfn = True  # bind time feature negotiation supported (negotiate_ack); False: provider_rejection, reason 2 (legal)
        self.epm_teardown = False  # the endpoint mapper closes its end right after the ept_map reply (the client's shutdown() then meets ENOTCONN)
        self.epm_towers: t.Optional[t.List[t.List[epm.Floor]]] = None
        self.epm_status = 0
        self.tamper: t.Optional[t.Callable[["Conn", bytes, dict], bytes]] = None
        self.segment: t.Optional[t.Callable[[bytes], t.List[t.Optional[bytes]]]] = None
        self.segment_conn: t.Optional[t.Callable[["Conn", bytes], t.List[t.Optional[bytes]]]] = None  # like segment, told which connection
        self.l2_at_31 = True
        self.reply_pad_extra = 0  # extra 16-byte blocks of auth padding (still conforming)
        self.reply_pad: t.Optional[int] = None  # exact auth padding to use (None = minimal 16-byte alignment); may misalign the trailer
        self.reply_pad_fill = 0  # value of the auth padding octets (a receiver must not look at them)
        self.force_hresult: t.Optional[int] = None  # GetKey fails with this HRESULT (access denied, RPC server too busy, ...)
        self.reply_reserved = 0  # auth_reserved octet of the reply's security trailer (ignored on receipt, MS-RPCE 2.2.2.11)
        self.reply_alloc_hint = "padded"  # alloc_hint convention of sealed replies: padded | unpadded | zero | 16 | max (it is only a hint)
        self.envelope_override: t.Optional[t.Callable[[gkdi.Envelope], gkdi.Envelope]] = None
        self.server_tokens: t.List[bytes] = [b"S-TOKEN-1", b"S-TOKEN-2", b"S-TOKEN-3", b"S-TOKEN-4"]
        self.server_legs = 1  # scripted context: number of server tokens before it is complete
        self.authorised_roots: t.Optional[t.Set[uuid.UUID]] = None  # when set: seed keys only for these root keys, public key for the others

    # -- transport entry point
    def connect(self, host: str, port: int) -> "Conn":
        if self.hosts is not None and host not in self.hosts:
            raise seams.NeedsNetwork(f"unknown host {host!r}")
        if port == 135:
            c = Conn(self, "epm", host, port)
        elif port == self.isd_port:
            c = Conn(self, "isd", host, port)
        else:
            raise seams.NeedsNetwork(f"nothing listens on port {port}")
        self.conns.append(c)
        return c

    # -- MS-GKDI policy
    def returned_position(self, req: t.Tuple[int, int, int]) -> t.Tuple[int, int, int]:
        l0, l1, l2 = req
        if self.cover == "exact":
            return req
        n0, n1, n2 = self.now
        if self.cover == "later":
            # the latest key of that L0 the caller may see: a conforming server may return any key at or after the request
            if l0 < n0:
                return (l0, 31, 31)
            if l1 < n1:
                return (l0, l1, 31)
            return req
        if self.cover == "l1end":
            return (l0, l1, 31)
        raise AssertionError(self.cover)

    def get_key(self, sd: bytes, rkid: t.Optional[uuid.UUID], l0: int, l1: int, l2: int) -> t.Tuple[t.Optional[bytes], int]:
        self.getkey_calls.append((sd, rkid, l0, l1, l2))
        if self.force_hresult is not None:
            return None, self.force_hresult
        rid = rkid or self.default_root
        rk = self.roots.get(rid) if rid else None
        if rk is None:
            return None, 0x80070002
        if (l0, l1, l2) == (-1, -1, -1):
            pos = self.now
        elif l0 < 0 or not (0 <= l1 <= 31 and 0 <= l2 <= 31):
            return None, 0x80070057
        elif (l0, l1, l2) > self.now:
            return None, 0x80070057
        else:
            pos = self.returned_position((l0, l1, l2))
        authorised = self.authorised if self.authorised_roots is None else (rk.rkid in self.authorised_roots)
        self.returned.append((rk.rkid, sd, pos, authorised))
        env = gkdi.server_envelope(rk, sd, pos[0], pos[1], pos[2], chain=gkdi.chain_cached(rk.hash_name, rk.key, rk.rkid, sd, pos[0]), authorised=authorised, domain=self.domain, forest=self.forest, with_l2_at_31=self.l2_at_31)
        if self.envelope_override:
            env = self.envelope_override(env)
        return gkdi.pack_envelope(env), 0


class Conn:
    def __init__(self, dc: DC, kind: str, host: str, port: int) -> None:
        self.dc, self.kind, self.host, self.port = dc, kind, host, port
        self.buf = b""
        self.state = "NEW"
        self.ctx: t.Any = None  # server security context
        self.auth_type = 0
        self.auth_level = 0
        self.sign_header = False
        self.accepted: t.Dict[int, t.Tuple[rpc.Syntax, rpc.Syntax]] = {}
        self.tokens_in: t.List[bytes] = []
        self.legs = 0
        self.closed = False
        self.idx = len(dc.conns)

    def closed_by_client(self) -> None:
        self.closed = True

    def log(self, **kw: t.Any) -> dict:
        kw["conn"] = self.idx
        kw["kind"] = self.kind
        self.dc.transcript.append(kw)
        return kw

    # -- framing
    def feed(self, data: bytes) -> t.List[t.Optional[bytes]]:
        self.buf += data
        out: t.List[t.Optional[bytes]] = []
        while len(self.buf) >= 16:
            frag = struct.unpack("<H", self.buf[8:10])[0]
            if frag < 16 or len(self.buf) < frag:
                break
            raw, self.buf = self.buf[:frag], self.buf[frag:]
            reply = self.on_pdu(raw)
            if reply is None:
                out.append(None)
                break
            if self.dc.segment_conn is not None:
                out.extend(self.dc.segment_conn(self, reply))
            else:
                out.extend(self.dc.segment(reply) if self.dc.segment else [reply])
        return out

    # -- protocol
    def fault(self, call_id: int, status: int = 0x1C01000B) -> bytes:
        self.log(dir="s2c", what="fault", status=status)
        return rpc.enc_fault(call_id, 0, status)

    def on_pdu(self, raw: bytes) -> t.Optional[bytes]:
        try:
            d = rpc.decode(raw)
        except rpc.RpcError as e:
            self.log(dir="c2s", what="undecodable", raw=raw, err=repr(e))
            return self.fault(1)
        ev = self.log(dir="c2s", what={rpc.BIND: "bind", rpc.ALTER_CONTEXT: "alter_context", rpc.REQUEST: "request"}.get(d["ptype"], f"ptype{d['ptype']}"), pdu=d, raw=raw)
        if d["ptype"] == rpc.BIND and self.state == "NEW":
            return self.on_bind(d, ev)
        if d["ptype"] == rpc.ALTER_CONTEXT and self.state == "AUTH":
            return self.on_alter(d, ev)
        if d["ptype"] == rpc.REQUEST and self.state in ("READY", "BOUND"):
            return self.on_request(d, raw, ev)
        return self.fault(d["call_id"])

    def results_for(self, contexts) -> t.List[t.Tuple[int, int, rpc.Syntax]]:
        served = rpc.EPM if self.kind == "epm" else rpc.ISD_KEY
        res = []
        for cid, abstract, transfers in contexts:
            if len(transfers) == 1 and rpc.is_btfn(transfers[0]):
                # a server that does not implement bind time feature negotiation answers that context like any unknown transfer syntax
                res.append((NEG_ACK, 3, NIL) if self.dc.btfn else (PROV_REJ, 2, NIL))
            elif abstract == served and rpc.NDR64 in transfers:
                res.append((ACCEPT, 0, rpc.NDR64))
                self.accepted[cid] = (abstract, rpc.NDR64)
            elif abstract != served:
                res.append((PROV_REJ, 1, NIL))
            else:
                res.append((PROV_REJ, 2, NIL))
        return res

    def _server_step(self, token: bytes) -> t.Optional[bytes]:
        self.tokens_in.append(token)
        out = self.ctx.step(token)
        return out

    def on_bind(self, d: dict, ev: dict) -> bytes:
        flags = rpc.PFC_FIRST | rpc.PFC_LAST
        res = self.results_for(d["contexts"])
        a = d["auth"]
        if a is None:
            self.state = "BOUND"
            self.log(dir="s2c", what="bind_ack", results=res)
            return rpc.enc_ack_like(rpc.BIND_ACK, flags, d["call_id"], res, None, b"%d\x00" % self.port)
        self.auth_type, self.auth_level = a["type"], a["level"]
        if d["flags"] & rpc.PFC_SIGN and self.dc.header_sign:
            flags |= rpc.PFC_SIGN
            self.sign_header = True
        if self.dc.sec == "ntlm":
            self.ctx = secctx.ntlm_server()
        else:
            self.ctx = secctx.ScriptedContext(self.dc.server_tokens[: self.dc.server_legs], self.dc.sig_size, role="server")
        tok = self._server_step(a["token"])
        self.state = "READY" if self.ctx.complete else "AUTH"
        auth = dict(type=a["type"], level=a["level"], pad=0, ctx=a["ctx"], token=tok) if tok is not None else None
        self.log(dir="s2c", what="bind_ack", results=res, token=tok, sign=bool(flags & rpc.PFC_SIGN))
        return rpc.enc_ack_like(rpc.BIND_ACK, flags, d["call_id"], res, auth, b"%d\x00" % self.port)

    def on_alter(self, d: dict, ev: dict) -> bytes:
        flags = rpc.PFC_FIRST | rpc.PFC_LAST | (rpc.PFC_SIGN if self.sign_header else 0)
        a = d["auth"]
        if a is None:
            return self.fault(d["call_id"])
        res = [(ACCEPT, 0, rpc.NDR64) if cid in self.accepted else (PROV_REJ, 2, NIL) for cid, _, _ in d["contexts"]]
        tok = self._server_step(a["token"])
        if self.ctx.complete:
            self.state = "READY"
        auth = dict(type=a["type"], level=a["level"], pad=0, ctx=a["ctx"], token=tok) if tok else None
        self.log(dir="s2c", what="alter_context_resp", results=res, token=tok)
        return rpc.enc_ack_like(rpc.ALTER_CONTEXT_RESP, flags, d["call_id"], res, auth, b"")

    def on_request(self, d: dict, raw: bytes, ev: dict) -> t.Optional[bytes]:
        if d["ctx_id"] not in self.accepted:
            return self.fault(d["call_id"], 0x1C00001A)
        if self.kind == "epm":
            return self.on_ept_map(d, ev)
        return self.on_getkey(d, raw, ev)

    def on_ept_map(self, d: dict, ev: dict) -> bytes:
        if d["opnum"] != 3 or d["auth"] is not None:
            return self.fault(d["call_id"], 0x1C010002)
        try:
            req = epm.parse_ept_map_request(d["stub"])
            ev["ept_map"] = req
        except (epm.EpmError, struct.error) as e:
            ev["ept_map_error"] = repr(e)
            return self.fault(d["call_id"], 0x1C000003)
        if self.dc.epm_stub is not None:
            stub = self.dc.epm_stub
        else:
            towers = self.dc.epm_towers
            if towers is None:
                towers = [epm.tcpip_tower(rpc.ISD_KEY, rpc.NDR, self.dc.isd_port, 0xC0A83865)]
            stub = epm.ept_map_response(towers, self.dc.epm_status)
        self.log(dir="s2c", what="ept_map_reply", stub=stub)
        if self.dc.epm_teardown:
            self.torn_down = True
        hint = {"padded": len(stub), "unpadded": len(stub), "zero": 0, "16": len(stub), "max": len(stub) + 100}[self.dc.reply_alloc_hint]
        return rpc.enc_response(d["call_id"], d["ctx_id"], stub, alloc_hint=hint)

    def unseal(self, d: dict, raw: bytes, ev: dict) -> t.Optional[bytes]:
        """independent receiver arithmetic: everything between the 24-byte request header and the security trailer"""
        import spnego.iov as siov

        a = d["auth"]
        body_start = d["stub_offset"]
        t_off = a["offset"]
        ev["sealed_region"] = (body_start, t_off)
        ty = siov.BufferType.sign_only if self.sign_header else siov.BufferType.data_readonly
        res = self.ctx.unwrap_iov([(ty, raw[:body_start]), raw[body_start:t_off], (ty, raw[t_off : t_off + 8]), (siov.BufferType.header, a["token"])])
        plain = res.buffers[1].data or b""
        return plain

    def on_getkey(self, d: dict, raw: bytes, ev: dict) -> t.Optional[bytes]:
        a = d["auth"]
        if a is None or self.state != "READY" or a["level"] != 6:
            ev["rejected"] = "not sealed at PKT_PRIVACY on a completed context"
            return self.fault(d["call_id"], 0x00000005)
        try:
            plain = self.unseal(d, raw, ev)
        except Exception as e:  # noqa: BLE001
            ev["unseal_error"] = repr(e)
            return self.fault(d["call_id"], 0x00000721)
        ev["plain"] = plain
        pad = a["pad"]
        if pad > len(plain):
            return self.fault(d["call_id"], 0x1C000003)
        region = plain[: len(plain) - pad]
        vt_off = rpc.find_vt(region)
        ev["vt_offset"] = vt_off
        stub = region if vt_off is None else region[:vt_off]
        ev["vt"] = None
        if vt_off is not None:
            try:
                ev["vt"] = rpc.dec_vt(region[vt_off:])
            except rpc.RpcError as e:
                ev["vt_error"] = repr(e)
        ev["stub_and_gap"] = stub
        if d["opnum"] != 0:
            return self.fault(d["call_id"], 0x1C010002)
        # the stub is followed by 0..3 bytes of alignment before the VT; try every split, accept the one that parses strictly
        parsed = None
        for cut in range(0, 4):
            if cut > len(stub):
                break
            cand = stub[: len(stub) - cut]
            if cut and stub[len(stub) - cut :] != b"\x00" * cut:
                break
            try:
                parsed = ndr64.parse_getkey_request(cand)
                ev["stub"] = cand
                ev["vt_gap"] = cut
                break
            except (ndr64.NdrError, struct.error):
                continue
        if parsed is None:
            ev["getkey_error"] = "stub is not a strict NDR64 GetKey request"
            return self.fault(d["call_id"], 0x000006F7)
        ev["getkey"] = parsed
        envelope, hres = self.dc.get_key(*parsed)
        reply_stub = ndr64.getkey_response(envelope, hres)
        return self.seal_response(d, reply_stub, ev)

    def seal_response(self, d: dict, reply_stub: bytes, ev: dict) -> bytes:
        import spnego.iov as siov

        pad = -len(reply_stub) % 16 + 16 * self.dc.reply_pad_extra
        if self.dc.reply_pad is not None:
            pad = self.dc.reply_pad
        body = reply_stub + bytes([self.dc.reply_pad_fill]) * pad
        sig_len = self.ctx.query_message_sizes().header
        total = 24 + len(body) + 8 + sig_len
        hint = {"padded": len(body), "unpadded": len(reply_stub), "zero": 0, "16": 16, "max": 2**32 - 1}[self.dc.reply_alloc_hint]
        hdr = rpc.header(rpc.RESPONSE, 3, total, sig_len, d["call_id"]) + struct.pack("<IHBB", hint, d["ctx_id"], 0, 0)
        trailer = struct.pack("<BBBBI", self.auth_type, self.auth_level, pad, self.dc.reply_reserved, 0)
        ty = siov.BufferType.sign_only if self.sign_header else siov.BufferType.data_readonly
        res = self.ctx.wrap_iov([(ty, hdr), body, (ty, trailer), siov.BufferType.header], encrypt=True, qop=None)
        sealed = hdr + (res.buffers[1].data or b"") + trailer + (res.buffers[3].data or b"")
        info = dict(plain_stub=reply_stub, pad=pad, body=body, hdr=hdr, trailer=trailer, sig_len=sig_len, conn=self)
        self.log(dir="s2c", what="getkey_reply", plain_stub=reply_stub, pad=pad, sealed=sealed)
        if self.dc.tamper:
            sealed = self.dc.tamper(self, sealed, info)
        return sealed


# -- helpers used by several checks ------------------------------------------------------------------


def primed_cache(rk: gkdi.RootKey, sid: str, pos: t.Tuple[int, int, int], now: t.Optional[t.Tuple[int, int, int]] = None):
    """A KeyCache that holds exactly what a DC returned for `pos` (obtained through the public API: one unprotect
    of a reference-encrypted blob via the reference DC with the scripted security context)."""
    import dpapi_ng

    from env import transport

    dc = DC([rk], now=now or (pos[0], 31, 31))
    blob = cms.ref_encrypt(rk, sid, b"prime", pos, cek=b"\x11" * 32, gcm_nonce_=b"\x22" * 12, key_nonce=b"\x33" * 32)
    cache = dpapi_ng.KeyCache()
    with transport.network(dc), secctx.scripted_client(lambda u, p, **kw: secctx.ScriptedContext([b"C-TOKEN-1"], 16)):
        pt = dpapi_ng.ncrypt_unprotect_secret(blob, server="dc.verif.test", username="u", password="p", auth_protocol="ntlm", cache=cache)
    assert pt == b"prime", pt
    assert len(dc.getkey_calls) == 1
    return cache
