"""In-memory transports bound to a sans-IO peer.

A *peer* is an object with ``connect(host, port) -> conn`` (or raises seams.NeedsNetwork); a *conn* has
``feed(data: bytes) -> list[bytes | None]`` returning the chunks the kernel would deliver to the client, in order;
``None`` in the list means EOF (connection closed by the peer); a tuple groups segments that arrive together; an exception instance is
a transport error reported at that point (timeout, connection reset).  The sync side is FakeSocket, the async side a real
``asyncio.StreamReader`` fed chunk by chunk plus a FakeWriter.
"""
from __future__ import annotations

import asyncio
import contextlib
import socket
import typing as t

from env import seams


class Spin(BaseException):
    """The client keeps reading after EOF (would spin forever on a real socket)."""


class BlocksForever(BaseException):
    """The client reads although the peer has nothing more to send and has not closed (would block forever)."""


class FakeSocket:
    MAX_EOF_READS = 3

    def __init__(self, conn: t.Any, addr: t.Tuple[str, int]) -> None:
        self.conn = conn
        self.addr = addr
        self.chunks: t.List[t.Optional[bytes]] = []
        self.eof_reads = 0
        self.reads = 0
        self.sent: t.List[bytes] = []
        self.closed = False
        # what a real socket starts with: the process-wide default timeout (socket.setdefaulttimeout), None = blocking
        self.timeout: t.Any = socket.getdefaulttimeout()

    # -- writes
    def sendall(self, data: t.Any, flags: int = 0) -> None:
        b = bytes(data)
        self.sent.append(b)
        self._reads_since_send = 0
        for c in self.conn.feed(b):
            self.chunks.extend(c if isinstance(c, tuple) else [c])

    def send(self, data: t.Any, flags: int = 0) -> int:
        self.sendall(data)
        return len(data)

    # -- reads
    def _next(self, n: int) -> bytes:
        self.reads += 1
        while self.chunks and self.chunks[0] == b"":
            self.chunks.pop(0)
        if not self.chunks:
            raise BlocksForever(f"read #{self.reads} with nothing in flight")
        head = self.chunks[0]
        # a socket that was left with a finite timeout (e.g. the process-wide default) gives up when the NEXT segment of a reply takes
        # longer than that - which the network is always free to do; only a blocking socket (timeout None) waits for it
        self._reads_since_send = getattr(self, "_reads_since_send", 0) + 1
        if self._reads_since_send > 1 and isinstance(self.timeout, (int, float)) and not isinstance(self.timeout, bool) and head is not None and not isinstance(head, BaseException):
            raise socket.timeout("timed out")
        if isinstance(head, BaseException):  # the kernel reports an error for this read (timeout, reset): raised once, EOF afterwards
            self.chunks[0] = None
            raise head
        if head is None:
            self.eof_reads += 1
            if self.eof_reads > self.MAX_EOF_READS:
                raise Spin(f"{self.eof_reads} reads after EOF")
            return b""
        if n >= len(head):
            self.chunks.pop(0)
            return head
        self.chunks[0] = head[n:]
        return head[:n]

    def recv(self, n: int, flags: int = 0) -> bytes:
        if flags & socket.MSG_WAITALL:
            out = b""
            while len(out) < n:
                part = self._next(n - len(out))
                if not part:
                    break
                out += part
            return out
        return self._next(n)

    def recv_into(self, buf: t.Any, nbytes: int = 0, flags: int = 0) -> int:
        view = memoryview(buf)
        n = nbytes or len(view)
        data = self.recv(n, flags)
        view[: len(data)] = data
        return len(data)

    def makefile(self, mode: str = "rb", buffering: t.Any = None, **kw: t.Any):
        import io

        sock = self

        class _Raw(io.RawIOBase):
            def readable(self) -> bool:
                return True

            def readinto(self, b: t.Any) -> int:
                return sock.recv_into(b)

        return io.BufferedReader(_Raw())

    # -- misc
    def settimeout(self, v: t.Any) -> None:
        self.timeout = v

    def setsockopt(self, *a: t.Any) -> None:
        pass

    def shutdown(self, how: int) -> None:
        # once the peer has closed / reset the connection (its FIN was read, is waiting to be read, or the conn says so) the kernel
        # answers shutdown() with ENOTCONN - what a server does right after a bind_nak or a fault
        if self.eof_reads or any(c is None or isinstance(c, BaseException) for c in self.chunks) or getattr(self.conn, "torn_down", False):
            raise OSError(107, "Transport endpoint is not connected")

    def close(self) -> None:
        self.closed = True
        c = getattr(self.conn, "closed_by_client", None)
        if c:
            c()

    def fileno(self) -> int:
        return -1

    def __enter__(self):
        return self

    def __exit__(self, *a: t.Any) -> None:
        self.close()


class FakeWriter:
    def __init__(self, conn: t.Any, reader: asyncio.StreamReader, hub: "Hub") -> None:
        self.conn = conn
        self.reader = reader
        self.hub = hub
        self.sent: t.List[bytes] = []
        self.closed = False
        self._closed_fut: t.Optional[asyncio.Future] = None

    def write(self, data: t.Any) -> None:
        b = bytes(data)
        self.sent.append(b)
        chunks = self.conn.feed(b)
        if self.hub.defer:
            self.hub.pending.append((self, list(chunks)))
        else:
            deliver(self.reader, chunks)

    async def drain(self) -> None:
        return None

    def close(self) -> None:
        self.closed = True
        if self._closed_fut is not None and not self._closed_fut.done():
            self._closed_fut.set_result(None)
        c = getattr(self.conn, "closed_by_client", None)
        if c:
            c()

    async def wait_closed(self) -> None:
        # asyncio semantics: resolves once the transport is closed, which only close() (or an error) brings about - a FIN from
        # the peer leaves a plain TCP transport half-open. Waiting without having called close() therefore never returns.
        if self.closed:
            return None
        if self._closed_fut is None:
            self._closed_fut = asyncio.get_running_loop().create_future()
        await self._closed_fut

    def is_closing(self) -> bool:
        return self.closed

    def get_extra_info(self, name: str, default: t.Any = None) -> t.Any:
        if name == "socket":
            # the transport's socket object: options set on it are honoured by the delivery below (SO_RCVLOWAT: the event loop is not woken,
            # i.e. nothing reaches the StreamReader, until that many octets are waiting - or the peer has closed)
            if not hasattr(self, "_sockobj"):
                self._sockobj = _TransportSocket(self)
            return self._sockobj
        return default


class _TransportSocket:
    def __init__(self, writer: "FakeWriter") -> None:
        self.writer = writer
        self.options: t.Dict[t.Tuple[int, int], t.Any] = {}

    def setsockopt(self, level: int, opt: int, value: t.Any) -> None:
        self.options[(level, opt)] = value
        if level == socket.SOL_SOCKET and opt == getattr(socket, "SO_RCVLOWAT", -1):
            self.writer.rcvlowat = int(value)

    def getsockopt(self, level: int, opt: int, *a: t.Any) -> t.Any:
        return self.options.get((level, opt), 0)

    def getpeername(self) -> t.Any:
        return ("dc", 0)

    def getsockname(self) -> t.Any:
        return ("client", 0)

    def fileno(self) -> int:
        return -1


def deliver(reader: asyncio.StreamReader, chunks: t.Sequence[t.Optional[bytes]]) -> None:
    for c in chunks:
        if isinstance(c, tuple):  # segments that reach the client together (e.g. the last data segment with the FIN behind it)
            deliver(reader, c)
        elif isinstance(c, BaseException):  # connection error reported by the transport (connection_lost(exc))
            reader.set_exception(c)
        elif c is None:
            reader.feed_eof()
        elif c:
            reader.feed_data(c)


class Hub:
    """Routes socket.create_connection / asyncio.open_connection to a peer; logs connections."""

    def __init__(self, peer: t.Any, defer: bool = False) -> None:
        self.peer = peer
        self.defer = defer  # async only: hold replies until the scheduler (explorer) releases them
        self.pending: t.List[t.Tuple[FakeWriter, t.List[t.Optional[bytes]]]] = []
        self.connections: t.List[t.Tuple[str, int]] = []
        self.attempts: t.List[t.Tuple[str, int]] = []
        self.sockets: t.List[t.Any] = []

    def create_connection(self, address: t.Tuple[str, int], timeout: t.Any = None, *a: t.Any, **k: t.Any) -> FakeSocket:
        host, port = address
        self.attempts.append((host, port))
        conn = self.peer.connect(host, port)
        self.connections.append((host, port))
        s = FakeSocket(conn, (host, port))
        self.sockets.append(s)
        return s

    async def open_connection(self, host: t.Any = None, port: t.Any = None, **k: t.Any):
        self.attempts.append((host, port))
        conn = self.peer.connect(host, port)
        self.connections.append((host, port))
        reader = asyncio.StreamReader()
        w = FakeWriter(conn, reader, self)
        self.sockets.append(w)
        return reader, w

    def release(self, idx: int) -> None:
        w, chunks = self.pending.pop(idx)
        deliver(w.reader, chunks)

    def release_chunk(self) -> bool:
        """deliver exactly ONE chunk (or EOF) of the oldest pending reply: the kernel hands the client one segment at a time and
        the client gets to run in between. Used as the virtual loop's on_idle so that a segmentation schedule is really observed
        by a StreamReader (feeding all chunks at once would coalesce them in its buffer)."""
        while self.pending and not self.pending[0][1]:
            self.pending.pop(0)
        if not self.pending:
            return False
        w, chunks = self.pending[0]
        c = chunks.pop(0)
        if not chunks:
            self.pending.pop(0)
        low = getattr(w, "rcvlowat", 1)
        if low > 1 and isinstance(c, (bytes, bytearray)):
            # kernel receive queue below the low-water mark: the loop is not woken yet
            w.backlog = getattr(w, "backlog", b"") + bytes(c)
            if len(w.backlog) < low:
                return True
            c, w.backlog = w.backlog, b""
        elif low > 1 and getattr(w, "backlog", b""):
            deliver(w.reader, [w.backlog])
            w.backlog = b""
        deliver(w.reader, [c])
        return True


@contextlib.contextmanager
def network(peer: t.Any, defer: bool = False):
    """Patch the stdlib connection factories to reach `peer` (everything else keeps raising NeedsNetwork)."""
    hub = Hub(peer, defer)
    with seams.patched(socket, "create_connection", hub.create_connection), seams.patched(asyncio, "open_connection", hub.open_connection):
        yield hub
