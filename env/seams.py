"""Environment seams at library boundaries (stdlib / third-party attributes looked up at call time)."""
from __future__ import annotations

import asyncio
import contextlib
import hashlib
import os
import socket
import struct
import time
import typing as t
import uuid

from ref import gkdi

EPOCH_FILETIME = 116444736000000000


class NeedsNetwork(Exception):
    """The library tried to reach a peer / DNS server the script does not provide."""


def _raise_net(*a: t.Any, **k: t.Any) -> t.Any:
    raise NeedsNetwork(repr(a[:2]))


async def _raise_net_async(*a: t.Any, **k: t.Any) -> t.Any:
    raise NeedsNetwork(repr(a[:2]))


_installed_block = False


def block_network() -> None:
    """Permanently (for this process) make every network entry point raise NeedsNetwork."""
    global _installed_block
    if _installed_block:
        return
    import dns.asyncresolver
    import dns.resolver

    socket.create_connection = _raise_net  # type: ignore[assignment]
    asyncio.open_connection = _raise_net_async  # type: ignore[assignment]
    dns.resolver.resolve = _raise_net  # type: ignore[assignment]
    dns.asyncresolver.resolve = _raise_net_async  # type: ignore[assignment]
    _installed_block = True


@contextlib.contextmanager
def patched(obj: t.Any, name: str, value: t.Any):
    old = getattr(obj, name)
    setattr(obj, name, value)
    try:
        yield
    finally:
        setattr(obj, name, old)


@contextlib.contextmanager
def clock(filetime: int, sub_ns: int = 0):
    """Pin the wall clock to a FILETIME (100 ns ticks since 1601) + sub_ns nanoseconds."""
    ns = (filetime - EPOCH_FILETIME) * 100 + sub_ns
    with patched(time, "time_ns", lambda: ns), patched(time, "time", lambda: ns / 1e9):
        yield


@contextlib.contextmanager
def ticking_clock(filetime: int, step_ticks: int = 1):
    """A clock that ADVANCES by step_ticks (100 ns units) on every read, starting at filetime: what a real clock does between two
    reads inside one call. Yields the list of values handed out (FILETIME)."""
    reads: t.List[int] = []

    def now_ns() -> int:
        ft = filetime + len(reads) * step_ticks
        reads.append(ft)
        return (ft - EPOCH_FILETIME) * 100

    with patched(time, "time_ns", now_ns), patched(time, "time", lambda: now_ns() / 1e9):
        yield reads


class Drbg:
    """SHA-256 counter DRBG for data values outside the alphabets (seeded by VERIF_SEED)."""

    def __init__(self, seed: t.Any) -> None:
        self.key = hashlib.sha256(repr(seed).encode()).digest()
        self.ctr = 0

    def bytes(self, n: int) -> bytes:
        out = b""
        while len(out) < n:
            out += hashlib.sha256(self.key + struct.pack(">Q", self.ctr)).digest()
            self.ctr += 1
        return out[:n]

    def int(self, bound: int) -> int:
        return int.from_bytes(self.bytes(16), "big") % bound

    def uuid(self) -> uuid.UUID:
        return uuid.UUID(bytes=self.bytes(16))


_FAMILIES: t.Dict[t.Tuple[bytes, int], t.List[bytes]] = {}


def collision_family(tag: bytes, n: int) -> t.List[bytes]:
    """pairwise DISTINCT n-octet blocks that agree under the cheap digests a memo or a truncation might key on: equal Adler-32 / Fletcher /
    octet sum, equal CRC-32, equal multiset of octets (any order-insensitive digest, xor-folds), equal first / last n-1 and 4 octets"""
    import zlib

    key = (tag, n)
    if key in _FAMILIES:
        return _FAMILIES[key]

    def blk(i: int) -> bytes:
        v, j = b"", 0
        while len(v) < n:
            v += hashlib.sha256(b"family" + tag + struct.pack(">IQI", n, i, j)).digest()
            j += 1
        return v[:n]

    b0 = bytearray(blk(0))
    fam = [bytes(b0)]
    if n >= 3:
        # +1, -2, +1 on three neighbouring octets: the octet sum and the position-weighted sum (hence Adler-32, Fletcher) stay the same
        for i in range(n - 2):
            if b0[i] < 255 and b0[i + 1] >= 2 and b0[i + 2] < 255:
                a = bytearray(b0)
                a[i] += 1
                a[i + 1] -= 2
                a[i + 2] += 1
                assert zlib.adler32(a) == zlib.adler32(b0)
                fam.append(bytes(a))
                break
    if n >= 5:
        seen: t.Dict[int, bytes] = {}
        for i in range(1, 1 << 22):
            c = blk(i)
            h = zlib.crc32(c)
            if h in seen:
                fam += [seen[h], c]
                break
            seen[h] = c
    if n >= 2:
        fam += [bytes(reversed(b0)), bytes(b0[1:] + b0[:1])]
        fam += [bytes(b0[:-1]) + bytes([b0[-1] ^ 1]), bytes([b0[0] ^ 1]) + bytes(b0[1:])]
    if n >= 8:
        fam += [bytes(b0[:4]) + blk(1 << 23)[4:], blk(1 << 24)[:-4] + bytes(b0[-4:])]
    out: t.List[bytes] = []
    for x in fam:
        if x not in out and len(x) == n:
            out.append(x)
    _FAMILIES[key] = out
    return out


class Entropy:
    """Logging entropy source. mode 'counter': never repeats; 'script': pops chosen values; collide: never repeats either, but the first
    blocks of every length come from collision_family()"""

    def __init__(self, tag: bytes = b"E", collide: bool = False) -> None:
        self.log: t.List[t.Tuple[str, bytes]] = []
        self.n = 0
        self.tag = tag
        self.script: t.List[bytes] = []
        self.collide = collide
        self._drawn: t.Dict[int, int] = {}
        self.script_by_size: t.Dict[int, t.List[bytes]] = {}  # chosen values for draws of one particular length

    def _next(self, n: int, who: str) -> bytes:
        if self.script:
            v = self.script.pop(0)
            assert len(v) == n, (who, len(v), n)
        elif self.script_by_size.get(n):
            v = self.script_by_size[n].pop(0)
        elif self.collide and n and self._drawn.get(n, 0) < len(collision_family(self.tag, n)):
            k = self._drawn.get(n, 0)
            self._drawn[n] = k + 1
            v = collision_family(self.tag, n)[k]
        else:
            self.n += 1
            v = b""
            i = 0
            while len(v) < n:
                v += hashlib.sha256(self.tag + struct.pack(">QI", self.n, i)).digest()
                i += 1
            v = v[:n]
        self.log.append((who, v))
        return v

    def urandom(self, n: int) -> bytes:
        return self._next(n, "urandom")

    def generate_key(self, bit_length: int) -> bytes:
        return self._next(bit_length // 8, "generate_key")


@contextlib.contextmanager
def entropy(src: Entropy):
    from cryptography.hazmat.primitives.ciphers.aead import AESGCM

    with patched(os, "urandom", src.urandom), patched(AESGCM, "generate_key", staticmethod(src.generate_key)):
        yield src


def make_cache(rk: gkdi.RootKey, minimal: bool = False):
    """dpapi_ng.KeyCache with the reference root key loaded through the public API.
    minimal: only key and id are given, everything else is left to load_key's documented defaults (SP800_108_CTR_HMAC / SHA512,
    DH with the RFC 5114 2048/256 group, 512 / 2048 bit key lengths) - only meaningful for a root key that has exactly those."""
    import dpapi_ng

    cache = dpapi_ng.KeyCache()
    if minimal:
        assert rk.hash_name == "SHA512" and rk.secret_alg == "DH" and not rk.secret_params and (rk.priv_len, rk.pub_len) == (512, 2048)
        cache.load_key(rk.key, rk.rkid)
    else:
        load_root(cache, rk)
    return cache


def load_root(cache: t.Any, rk: gkdi.RootKey) -> None:
    cache.load_key(
        key=rk.key,
        root_key_id=rk.rkid,
        version=rk.version,
        kdf_algorithm="SP800_108_CTR_HMAC",
        kdf_parameters=gkdi.pack_kdf_params(rk.hash_name),
        secret_algorithm=rk.secret_alg,
        # (a mutable buffer is an accepted argument type: the DH parameters are handed over as a bytearray)
        secret_parameters=bytearray(rk.params()) if rk.secret_alg == "DH" else (rk.secret_params or None),
        private_key_length=rk.priv_len,
        public_key_length=rk.pub_len,
    )


ALG_LENS = {"DH": (512, 2048), "ECDH_P256": (256, 256), "ECDH_P384": (384, 384)}


def make_root(drbg: Drbg, hash_name: str, secret_alg: str = "DH") -> gkdi.RootKey:
    priv, pub = ALG_LENS[secret_alg]
    return gkdi.RootKey(drbg.uuid(), drbg.bytes(64), hash_name, secret_alg, b"", priv, pub, 1)


def outcome_of(fn: t.Callable[[], t.Any]) -> t.Tuple[str, t.Any]:
    """('ok', value) | ('net', exc) | ('exc', exc)"""
    try:
        return "ok", fn()
    except NeedsNetwork as e:
        return "net", e
    except Exception as e:  # noqa: BLE001
        return "exc", e
